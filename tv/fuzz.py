"""Coverage-guided fuzzing of request histories (atheris / libFuzzer on the pure-Python library).

    python -m tv.fuzz <ID> <runs> <seed> <outdir>

The fuzz target is Hypothesis' own byte-level entry point (`fuzz_one_input`) of a @given(st.data()) test that drives one
history (vocabulary, configuration, ops, probes) through the SAME Case/oracle code as the generated checks, with the
`traph` package instrumented for coverage.  libFuzzer mutates the byte string, Hypothesis decodes it into a structured
history, the property's oracle judges it.  A violation writes a replay file and exits 1; a harness error exits 2."""
import json
import os
import sys


def main():
    prop_id, runs, seed, outdir = sys.argv[1], int(sys.argv[2]), int(sys.argv[3]), sys.argv[4]
    steps = int(sys.argv[5]) if len(sys.argv) > 5 else 12
    import atheris
    with atheris.instrument_imports(include=["traph"], enable_loader_override=False):
        from . import env  # noqa: F401
    from hypothesis import given, settings, HealthCheck, strategies as st, Phase
    from .core import Ctx, Case, Violation, HarnessError
    from .runner import load_prop, load_known, write_replay
    from .lru import vocab
    from .gen import config_strategy, op_strategy

    prop = load_prop(prop_id)
    ctx = Ctx(prop_id, "thorough", load_known(prop_id))
    weights = prop.weights()

    @settings(deadline=None, database=None, suppress_health_check=list(HealthCheck), max_examples=1,
              phases=[Phase.generate])
    @given(st.data())
    def history(data):
        v = data.draw(vocab(modes=prop.MODES, long_bias=prop.LONG_BIAS))
        cfg = data.draw(config_strategy(v, backends=prop.BACKENDS, with_rules=prop.WITH_RULES, overwrite=prop.OVERWRITE))
        case = Case(prop, ctx, cfg, v)
        try:
            for _ in range(steps):
                op = data.draw(op_strategy(case.vocab, case.led, weights, case.config.backend, case.ops))
                case.step(op)
                for pop in prop.draw_probes(case, data):
                    case.probe(pop)
        finally:
            case.finish(record=True)

    fuzz_one = history.hypothesis.fuzz_one_input
    stats = {"execs": 0}

    def target(buf):
        stats["execs"] += 1
        if stats["execs"] % 20 == 0:
            _dump(ctx, stats, outdir)
        try:
            fuzz_one(buf)
        except Violation as v:
            v = ctx.last_violation or v
            rep = {"property": prop_id, "clause": v.clause, "detail": str(v.detail)[:4000], "seed": seed, "shard": 900 + seed % 100,
                   "tier": "thorough-fuzz", "config": v.config, "ops": v.ops, "minimized": False}
            os.makedirs(outdir, exist_ok=True)
            with open(os.path.join(outdir, "violation.json"), "w") as f:
                json.dump(rep, f)
            _dump(ctx, stats, outdir)
            os._exit(1)
        except HarnessError:
            import traceback
            traceback.print_exc()
            _dump(ctx, stats, outdir)
            os._exit(2)

    corpus = os.path.join(outdir, "corpus")
    os.makedirs(corpus, exist_ok=True)
    # starting corpus: a few deterministic byte strings long enough to decode into whole histories (an empty corpus makes
    # libFuzzer give up at once because short inputs never reach the library), plus the empty input
    import hashlib
    for i in range(6):
        buf = b""
        k = 0
        while len(buf) < 1024 * (1 + i % 3):
            buf += hashlib.sha256(b"tv-corpus-%d-%d-%d" % (seed, i, k)).digest()
            k += 1
        with open(os.path.join(corpus, "seed%d" % i), "wb") as f:
            f.write(buf)
    argv = [sys.argv[0], corpus, "-runs=%d" % runs, "-seed=%d" % (seed or 1), "-max_len=4096", "-print_final_stats=0",
            "-verbosity=0", "-artifact_prefix=%s/" % outdir]
    import atexit  # noqa: F401  (atexit does not run under atheris: results are dumped by the wrapper below)
    atheris.Setup(argv, target)
    _dump(ctx, stats, outdir)
    atheris.Fuzz()      # never returns (libFuzzer exits the process); results are dumped every 20 executions


def _dump(ctx, stats, outdir):
    os.makedirs(outdir, exist_ok=True)
    r = ctx.result()
    r["execs"] = stats["execs"]
    with open(os.path.join(outdir, "result.json"), "w") as f:
        json.dump(r, f)


if __name__ == "__main__":
    main()
