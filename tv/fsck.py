"""Raw-bytes parser and structural checker of both store files.  Uses its own struct code; imports nothing from traph.

check(trie_bytes, link_bytes) -> (errors, info)
  errors: list of (clause, text)
  info:   lrus {head block -> full LRU}, blocks, full stems, out/in lists per page block (newest first)
"""
import struct

NF = "75pBI6Q"
NB = 128
LB = 16
PAYLOAD = 74

F_PAGE, F_CRAWLED, F_RULE, F_HAS_TAIL, F_IS_TAIL, F_NOCHILD = 1, 2, 16, 32, 64, 128


def parse_trie(buf):
    blocks = {}
    for off in range(NB, len(buf) - NB + 1, NB):
        stem, flags, we, left, right, child, parent, outl, inl = struct.unpack(NF, bytes(buf[off:off + NB]))
        blocks[off] = {
            "stem": stem, "flags": flags, "we": we, "left": left, "right": right, "child": child, "parent": parent,
            "out": outl, "in": inl, "page": bool(flags & F_PAGE), "crawled": bool(flags & F_CRAWLED),
            "rule": bool(flags & F_RULE), "has_tail": bool(flags & F_HAS_TAIL), "is_tail": bool(flags & F_IS_TAIL),
            "nochild": bool(flags & F_NOCHILD),
        }
    return blocks


def check(trie_buf, link_buf):
    errs = []

    def err(clause, text):
        errs.append((clause, text))

    info = {"lrus": {}, "blocks": {}, "full": {}, "out": {}, "in": {}}
    if len(trie_buf) % NB:
        err("partial-block", "trie store is %d bytes, not a whole number of %d-byte blocks" % (len(trie_buf), NB))
        return errs, info
    if len(link_buf) % LB:
        err("partial-block", "link store is %d bytes, not a whole number of %d-byte blocks" % (len(link_buf), LB))
        return errs, info
    if len(trie_buf) < NB:
        err("no-header", "trie store has no header block")
        return errs, info
    if len(link_buf) < LB:
        err("no-header", "link store has no header block")
        return errs, info
    B = parse_trie(trie_buf)
    info["blocks"] = B

    # full stems: head + contiguous tail blocks
    full = {}
    tail_owner = {}
    for off, b in B.items():
        if b["is_tail"]:
            continue
        s = b["stem"]
        cur, cb = off, b
        while cb["has_tail"]:
            nxt = cur + NB
            if nxt not in B or not B[nxt]["is_tail"]:
                err("tail-chain", "tail chain of head block %d broken at block %d" % (off, nxt))
                break
            if len(cb["stem"]) != PAYLOAD:
                err("tail-chain", "block %d is followed by a tail but holds %d bytes, not %d" % (cur, len(cb["stem"]), PAYLOAD))
            tail_owner[nxt] = off
            cb = B[nxt]
            cur = nxt
            s += cb["stem"]
            if len(cb["stem"]) == 0:
                err("tail-chain", "empty tail block %d" % cur)
        full[off] = s
    info["full"] = full
    for off, b in B.items():
        if b["is_tail"] and off not in tail_owner:
            err("orphan-tail", "tail block %d belongs to no head block" % off)

    # reachability from the root, BST order on full stems, parent pointers
    seen = {}
    lrus = info["lrus"]
    if NB in B:
        stack = [(NB, 0, b"", None, None)]
        while stack:
            off, par, plru, lo, hi = stack.pop()
            if off not in B:
                err("dangling-pointer", "pointer to block %d outside the store" % off)
                continue
            if B[off]["is_tail"]:
                err("pointer-to-tail", "pointer to tail block %d" % off)
                continue
            if off in seen:
                err("referenced-twice", "head block %d is referenced twice" % off)
                continue
            seen[off] = True
            b = B[off]
            s = full.get(off, b"")
            if b["parent"] != par:
                err("parent-pointer", "parent pointer of block %d is %d, the node one stem up is %d" % (off, b["parent"], par))
            if not s.endswith(b"|") or b"|" in s[:-1]:
                err("bad-stem", "block %d holds %r which is not one stem" % (off, s[:40]))
            if lo is not None and not s > lo:
                err("bst-order", "block %d (%r...) is not greater than its left bound" % (off, s[:20]))
            if hi is not None and not s < hi:
                err("bst-order", "block %d (%r...) is not smaller than its right bound" % (off, s[:20]))
            lrus[off] = plru + s
            if b["left"]:
                stack.append((b["left"], par, plru, lo, s))
            if b["right"]:
                stack.append((b["right"], par, plru, s, hi))
            if b["child"]:
                stack.append((b["child"], off, plru + s, None, None))
    for off, b in B.items():
        if not b["is_tail"] and off not in seen:
            err("unreferenced-block", "head block %d is referenced by nothing" % off)

    # link stubs
    stubs = {}
    for off in range(LB, len(link_buf) - LB + 1, LB):
        stubs[off] = struct.unpack("QQ", bytes(link_buf[off:off + LB]))
    used = {}
    for off in sorted(seen):
        b = B[off]
        for key in ("out", "in"):
            cur = b[key]
            lst = []
            while cur:
                if cur not in stubs:
                    err("dangling-stub", "%s-list of block %d points to missing stub %d" % (key, off, cur))
                    break
                if cur in used:
                    err("stub-shared", "stub %d is on two lists" % cur)
                    break
                used[cur] = off
                tgt, prev = stubs[cur]
                if tgt not in seen or not B[tgt]["page"]:
                    err("stub-target", "stub %d targets block %d which is not a page" % (cur, tgt))
                lst.append(tgt)
                cur = prev
            if lst:
                if not b["page"]:
                    err("links-on-non-page", "block %d carries links but is not a page" % off)
                info[key][off] = lst
    for off in stubs:
        if off not in used:
            err("unreferenced-stub", "stub %d is on no list" % off)
    info["n_trie_blocks"] = len(trie_buf) // NB
    info["n_link_blocks"] = len(link_buf) // LB
    return errs, info


def link_counter(info):
    """Counter[(source lru, target lru)] from the out lists, and from the in lists (transposed)"""
    from collections import Counter
    lrus = info["lrus"]
    out = Counter()
    inn = Counter()
    for off, lst in info["out"].items():
        for t in lst:
            out[(lrus.get(off), lrus.get(t))] += 1
    for off, lst in info["in"].items():
        for s in lst:
            inn[(lrus.get(s), lrus.get(off))] += 1
    return out, inn
