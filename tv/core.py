"""Core of the machinery: contexts, cases (one generated history applied to a real index and to the ledger),
violations, known-finding tolerance, the Hypothesis state machine factory, ddmin reduction and replay."""
import hashlib
import json
import os
import sys
import traceback
from collections import Counter

from . import env
from .codec import enc, short
from .ledger import Ledger
from .ops import Index, Config, op_to_json, op_from_json, WRITE_KINDS


class Violation(Exception):
    def __init__(self, prop, clause, detail, ops=None, config=None):
        Exception.__init__(self, "%s/%s: %s" % (prop, clause, detail))
        self.prop = prop
        self.clause = clause
        self.detail = detail
        self.ops = ops
        self.config = config


class HarnessError(Exception):
    pass


def _innermost_repo_frame(tb):
    """(file, function) of the innermost frame that lies in the tree under test, or None"""
    found = None
    for fs in traceback.extract_tb(tb):
        fn = os.path.realpath(fs.filename)
        if fn.startswith(env.REPO + os.sep) and not fn.startswith(env.VERIF + os.sep):
            found = (os.path.relpath(fn, env.REPO), fs.name)
    return found


class Ctx(object):
    """per-process run context: statistics, known findings, last violation"""

    def __init__(self, prop_id, tier, known=None):
        self.prop_id = prop_id
        self.tier = tier
        self.known = known or {}          # kid -> entry (only *open* entries of this property)
        self.known_hits = Counter()
        self.known_examples = {}
        self.evaluations = 0
        self.nontrivial = set()
        self.all_hashes = set()
        self.events = Counter()
        self.samples = []
        self.last_violation = None
        self.skipped_ops = 0
        self.extra = Counter()            # free counters for evidence (e.g. cuts explored)

    # -- violations ------------------------------------------------------------------------------
    def fail(self, clause, detail, case=None):
        v = Violation(self.prop_id, clause, detail,
                      ops=[op_to_json(o) for o in case.ops] if case is not None else None,
                      config=case.config_json() if case is not None else None)
        self.last_violation = v
        v.minimize = getattr(case, "minimize", True)
        if case is not None:
            case.failed = True
        raise v

    def tolerate(self, kid, detail):
        """True (and counted) iff `kid` is an OPEN known finding of this property; the caller then adopts the
        observed value and goes on.  False: the caller must report the deviation as a violation."""
        if kid in self.known:
            self.known_hits[kid] += 1
            self.known_examples.setdefault(kid, detail)
            return True
        return False

    def event(self, name, n=1):
        self.events[name] += n

    # -- per-case accounting ----------------------------------------------------------------------
    def record_case(self, ops, flags, nontrivial, sample=None):
        self.evaluations += 1
        h = hashlib.sha1(json.dumps([op_to_json(o) for o in ops], sort_keys=True).encode()).hexdigest()[:16]
        self.all_hashes.add(h)
        for f in flags:
            self.events["case:" + f] += 1
        if nontrivial:
            if h not in self.nontrivial and len(self.samples) < 3:
                self.samples.append(sample if sample is not None else [short(list(o), 48) for o in ops[:12]])
            self.nontrivial.add(h)

    def result(self):
        return {
            "evaluations": self.evaluations,
            "nontrivial": sorted(self.nontrivial),
            "distinct": len(self.all_hashes),
            "events": dict(self.events),
            "samples": self.samples,
            "known_hits": dict(self.known_hits),
            "known_examples": {k: str(v)[:300] for k, v in self.known_examples.items()},
            "skipped_ops": self.skipped_ops,
            "extra": dict(self.extra),
        }


def guard(ctx, case, what, fn, *a, **k):
    """run a call into the code under test made by an oracle.  TraphException is a violation (clause 'refused') unless the
    caller says refusal is legal (_refusal_ok); any other exception raised *inside the tree under test* is a violation (clause 'exception');
    an exception raised by the harness itself is a HarnessError (exit 2, never a VIOLATION)."""
    passthrough = k.pop("_passthrough", ())
    refusal_ok = k.pop("_refusal_ok", False)
    from .ops import reset_budget
    reset_budget()
    try:
        return fn(*a, **k)
    except env.TraphException as e:
        if refusal_ok:
            raise
        ctx.fail("refused", "%s was refused with the library's own error although the request is valid here: %r" % (what, e), case)
    except (Violation, HarnessError):
        raise
    except Exception as e:
        if type(e).__module__.startswith("hypothesis") or isinstance(e, passthrough):
            raise
        fr = _innermost_repo_frame(e.__traceback__)
        if fr is None:
            raise HarnessError("%s: %r\n%s" % (what, e, traceback.format_exc()))
        ctx.fail("exception", "%s raised %s in %s:%s -- %r" % (what, type(e).__name__, fr[0], fr[1], e), case)


class Case(object):
    """one history: a real index, the ledger, the executed ops"""

    def __init__(self, prop, ctx, config, vocab=None):
        self.prop = prop
        self.ctx = ctx
        self.config = config
        self.vocab = vocab
        from .codec import set_encoding
        set_encoding(getattr(config, "encoding", "utf-8"))
        self.idx = Index(config)
        self.led = Ledger(config)
        self.ops = []
        self.flags = set()
        self.nsteps = 0
        self.finished = False
        self.failed = False
        self.resources = []   # extra Index objects (twins) destroyed with the case
        self.state = {}       # property-private per-case state
        try:
            prop.begin(self)
        except BaseException:
            self.destroy()
            raise

    def config_json(self):
        return self.config.to_json()

    @property
    def t(self):
        return self.idx.traph

    def flag(self, f):
        self.flags.add(f)

    def call(self, what, fn, *a, **k):
        """a call that must succeed: TraphException is a violation ('refused'), other exceptions from the tree too"""
        return guard(self.ctx, self, what, fn, *a, **k)

    def call_may_refuse(self, what, fn, *a, **k):
        """a call for which the library's own TraphException is a legal outcome (it propagates to the caller)"""
        k["_refusal_ok"] = True
        return guard(self.ctx, self, what, fn, *a, **k)

    # -- write ops ---------------------------------------------------------------------------------
    def step(self, op, record=True):
        led = self.led
        if not led.applicable(op, self.config.backend):
            self.ctx.skipped_ops += 1
            return None
        if record:
            self.ops.append(op)
        self.nsteps += 1
        pre = self.prop.before_op(self, op)
        out = self.idx.apply(op)
        if out.status == "error":
            fr = _innermost_repo_frame(out.exc.__traceback__)
            if fr is None:
                raise HarnessError("op %r: %r\n%s" % (op[0], out.exc, out.tb))
            if not self.prop.error_ok(self, op, out):
                self.ctx.fail("exception", "request %s raised %s in %s:%s -- %r" % (
                    op[0], type(out.exc).__name__, fr[0], fr[1], out.exc), self)
        facts = led.apply(op, out)
        self.flags.add("op:" + op[0])
        if facts.get("resubmit"):
            self.flags.add("resubmission")
        self.prop.after_op(self, op, out, pre)
        return out

    # -- read-only probes ---------------------------------------------------------------------------
    def probe(self, pop):
        self.ops.append(pop)
        self.prop.run_probe(self, pop)

    def run_op(self, op):
        if op[0] == "probe":
            self.probe(op)
        else:
            self.step(op)

    def finish(self, record=True):
        if self.finished:
            return
        self.finished = True
        try:
            if record and not self.failed:
                self.prop.end(self)
                nt = self.prop.nontrivial(self)
                self.ctx.record_case(self.ops, self.flags, nt, self.prop.sample(self))
        finally:
            self.destroy()

    def destroy(self):
        self.idx.destroy()
        for r in self.resources:
            try:
                r.destroy()
            except Exception:
                pass
        self.resources = []

    def abort(self):
        self.finished = True
        self.destroy()


class Prop(object):
    """base class of property oracles (one subclass per listed property)"""
    ID = None
    LEVEL = "exploration"
    TECHNIQUE = "stateful property-based testing (Hypothesis) against a ledger oracle"
    RULE = ""
    MODES = ("url", "raw", "mixed")
    LONG_BIAS = 0.25
    BACKENDS = ("file",)
    OVERWRITE = (True,)
    WITH_RULES = True
    WEIGHTS = {}
    # (cases per shard, steps per case)
    QUICK = (12, 20)
    THOROUGH = (150, 40)
    ASSUMPTIONS = []
    FUZZ_RUNS = 0     # thorough tier only: libFuzzer executions per shard of the coverage-guided history fuzzer (tv/fuzz.py)
    LEVEL_TEXT = ("Generated-input search: Hypothesis rule-based histories checked after every step against an explicit "
                  "oracle; bounded (case counts and sizes in the evidence file); finds counterexamples, never proves absence.")
    LEVEL_NOTE = ("Trusted: the harness's ledger (built from request inputs and reported ids only), Python's re and struct; "
                  "bounds: histories <= 40 steps, vocabularies <= 14 stems, stems <= 600 bytes.")

    def weights(self):
        from .gen import BASE_WEIGHTS
        w = dict(BASE_WEIGHTS)
        w.update(self.WEIGHTS)
        return w

    def begin(self, case):
        pass

    def before_op(self, case, op):
        return None

    def after_op(self, case, op, out, pre):
        pass

    def error_ok(self, case, op, out):
        return False

    def draw_probes(self, case, data):
        return []

    def run_probe(self, case, pop):
        pass

    def end(self, case):
        pass

    def nontrivial(self, case):
        return True

    def sample(self, case):
        return None

    def known_repros(self):
        """{kid: callable(ctx) -> bool still failing} for the open known findings of this property"""
        return {}

    # extra, non-Hypothesis work of a check (exhaustive sub-checks); returns nothing, uses ctx
    def extra_checks(self, ctx, tier, seed, shard, nshards):
        pass

    def replay_custom(self, ctx, rep):
        """replays of violations found by the fixed probes (scale probes etc.): the probe itself is re-run"""
        self.extra_checks(ctx, rep.get("tier", "quick") if rep.get("tier") in ("quick", "thorough") else "quick",
                          rep.get("seed", 1), rep.get("shard", 0), NSHARDS_DEFAULT)


NSHARDS_DEFAULT = 16


class _Unused(object):
    pass


# -------------------------------------------------------------------------------------------------
# Hypothesis machine

def make_machine(prop, ctx):
    from hypothesis import strategies as st
    from hypothesis.stateful import RuleBasedStateMachine, rule, initialize
    from .lru import vocab
    from .gen import config_strategy, op_strategy

    weights = prop.weights()

    class HistoryMachine(RuleBasedStateMachine):
        def __init__(self):
            RuleBasedStateMachine.__init__(self)
            self.case = None

        @initialize(data=st.data())
        def init(self, data):
            v = data.draw(vocab(modes=prop.MODES, long_bias=prop.LONG_BIAS))
            cfg = data.draw(config_strategy(v, backends=prop.BACKENDS, with_rules=prop.WITH_RULES, overwrite=prop.OVERWRITE))
            self.case = Case(prop, ctx, cfg, v)

        @rule(data=st.data())
        def step(self, data):
            case = self.case
            op = data.draw(op_strategy(case.vocab, case.led, weights, case.config.backend, case.ops))
            case.step(op)
            for pop in prop.draw_probes(case, data):
                case.probe(pop)

        def teardown(self):
            if self.case is not None:
                self.case.finish(record=True)

    HistoryMachine.__name__ = "History_" + prop.ID
    return HistoryMachine


def run_machine(prop, ctx, seed, n_cases, n_steps, shrink=False):
    import hypothesis
    from hypothesis import settings, HealthCheck, Phase, Verbosity
    from hypothesis.stateful import run_state_machine_as_test

    phases = [Phase.generate, Phase.target]
    if shrink:
        phases.append(Phase.shrink)
    s = settings(max_examples=n_cases, stateful_step_count=n_steps, deadline=None, database=None,
                 derandomize=False, report_multiple_bugs=False, phases=phases, verbosity=Verbosity.quiet,
                 suppress_health_check=list(HealthCheck), print_blob=False)
    M = hypothesis.seed(seed)(make_machine(prop, ctx))
    run_state_machine_as_test(M, settings=s)


# -------------------------------------------------------------------------------------------------
# replay and reduction

def replay(prop, ctx, config_json, ops_json, record=False):
    """re-execute a recorded history without Hypothesis; raises Violation like the generated run would"""
    cfg = Config.from_json(config_json)
    case = Case(prop, ctx, cfg, None)
    try:
        for j in ops_json:
            case.run_op(op_from_json(j))
        prop.end(case)
    finally:
        case.finished = True
        case.destroy()
    return case


def _fails(prop, config_json, ops_json, clause, known):
    ctx = Ctx(prop.ID, "replay", known)
    try:
        replay(prop, ctx, config_json, ops_json)
    except Violation as v:
        return v.clause == clause
    except HarnessError:
        return False
    return False


def _shrink_op_candidates(j):
    """smaller variants of one JSON op (drop list elements)"""
    out = []
    for i, a in enumerate(j):
        if isinstance(a, list) and len(a) > 0:
            for k in range(len(a)):
                out.append(j[:i] + [a[:k] + a[k + 1:]] + j[i + 1:])
            for k, el in enumerate(a):
                if isinstance(el, list) and len(el) == 2 and isinstance(el[1], list) and el[1]:
                    for q in range(len(el[1])):
                        out.append(j[:i] + [a[:k] + [[el[0], el[1][:q] + el[1][q + 1:]]] + a[k + 1:]] + j[i + 1:])
    return out


def minimize(prop, config_json, ops_json, clause, known, budget=300):
    """ddmin over the op list, then over list arguments of each op, re-running the same oracle"""
    evals = [0]

    def test(ops):
        if evals[0] >= budget:
            return False
        evals[0] += 1
        return _fails(prop, config_json, ops, clause, known)

    ops = list(ops_json)
    if not test(ops):
        return ops, evals[0], False
    n = 2
    while len(ops) >= 2 and evals[0] < budget:
        chunk = max(1, len(ops) // n)
        reduced = False
        for i in range(0, len(ops), chunk):
            cand = ops[:i] + ops[i + chunk:]
            if cand and test(cand):
                ops = cand
                n = max(n - 1, 2)
                reduced = True
                break
        if not reduced:
            if chunk == 1:
                break
            n = min(len(ops), n * 2)
    changed = True
    while changed and evals[0] < budget:
        changed = False
        for i in range(len(ops)):
            for cand_op in _shrink_op_candidates(ops[i]):
                cand = ops[:i] + [cand_op] + ops[i + 1:]
                if test(cand):
                    ops = cand
                    changed = True
                    break
            if changed:
                break
    # simpler config: drop constructor rules when possible
    if config_json.get("rules"):
        c2 = dict(config_json)
        c2["rules"] = []
        if evals[0] < budget:
            evals[0] += 1
            if _fails(prop, c2, ops, clause, known):
                config_json.clear()
                config_json.update(c2)
    return ops, evals[0], True


def run_given(seed, n_examples, strategy, fn, shrink=False):
    """plain @given run with the same determinism settings as the machines"""
    import hypothesis
    from hypothesis import settings, HealthCheck, Phase, Verbosity, given

    phases = [Phase.generate, Phase.target]
    if shrink:
        phases.append(Phase.shrink)
    s = settings(max_examples=n_examples, deadline=None, database=None, derandomize=False, report_multiple_bugs=False,
                 phases=phases, verbosity=Verbosity.quiet, suppress_health_check=list(HealthCheck), print_blob=False)

    @hypothesis.seed(seed)
    @s
    @given(strategy)
    def test(x):
        fn(x)

    test()
