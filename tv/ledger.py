"""Ground-truth ledger: built only from the *inputs* of write requests and from what the real index *reported*
(created webentities and their ids).  It predicts nothing about automatic creation; it follows the reports."""
from collections import Counter

from .codec import B
from .spec import prefixes_of


class Ledger(object):
    def __init__(self, config):
        self.reset(config.default_rule, config.rules)

    def reset(self, default_rule, rules):
        self.closure = set()          # every stem-prefix of every LRU named in a write request / report
        self.pages = {}               # page lru -> crawled (strict reading of the statement)
        self.k2_only = set()          # pages whose only crawled evidence is add_pages(..., crawled=False)  (finding K2)
        self.links = Counter()        # (source, target) -> number of submissions
        self.prefix_map = {}          # prefix -> webentity id (net effect of edits and reported creations)
        self.issued = []              # every id reported as created since creation / clear, in order
        self.default_rule = default_rule
        self.rules = {B(a): n for a, n in rules.items()}   # anchor -> rule name currently installed
        self.flagged = set(self.rules)                      # anchors whose node carries the rule flag
        for a in self.rules:
            self.name(a)
        self.nb_write_ops = 0
        self.resubmissions = 0

    # -- helpers -------------------------------------------------------------------------------
    def name(self, lru):
        self.closure.update(prefixes_of(lru))

    def _page(self, lru, strict_crawled, k2=False):
        self.name(lru)
        new = lru not in self.pages
        if new:
            self.pages[lru] = False
        if strict_crawled:
            self.pages[lru] = True
            self.k2_only.discard(lru)
        elif k2 and not self.pages[lru]:
            self.k2_only.add(lru)
        return new

    def webentities(self):
        d = {}
        for p, w in self.prefix_map.items():
            d.setdefault(w, []).append(p)
        for w in d:
            d[w].sort()
        return d

    def follow_created(self, created):
        for weid in sorted(created):
            self.issued.append(weid)
            for p in created[weid]:
                self.name(p)
                self.prefix_map[p] = weid

    # -- expectations that need no model of automatic creation -------------------------------------
    def request_lrus(self, op):
        kind = op[0]
        if kind == "page":
            return [B(op[1])]
        if kind == "pages":
            return [B(x) for x in op[1]]
        if kind == "links":
            out = []
            for s, t in op[1]:
                out += [B(s), B(t)]
            return out
        if kind == "batch":
            out = []
            for s, ts in op[1]:
                out.append(B(s))
                out += [B(t) for t in ts]
            return out
        return []

    def expected_new_pages(self, op):
        return len(set(l for l in self.request_lrus(op) if l not in self.pages))

    def expect_refusal(self, op):
        """True / False for explicit webentity edits (C04: attaching an attached prefix is refused)"""
        kind = op[0]
        if kind == "create":
            return any(B(p) in self.prefix_map for p in op[1])
        if kind == "addprefix":
            return B(op[1]) in self.prefix_map
        if kind == "rmprefix":
            return bool(op[2]) and self.prefix_map.get(B(op[1])) != op[2]
        if kind == "move":
            return bool(op[3]) and self.prefix_map.get(B(op[1])) != op[3]
        if kind == "delete":
            if len(op) > 3 and op[3] == "unchecked":
                return False
            return any(self.prefix_map.get(B(p)) != op[1] for p in op[2])
        return False

    # -- following one executed op -------------------------------------------------------------
    def apply(self, op, out):
        """update from the op's inputs and from the real outcome; returns a dict of facts about the step"""
        kind = op[0]
        facts = {"resubmit": False}
        if kind in ("page", "pages", "links", "batch"):
            lrus = self.request_lrus(op)
            facts["resubmit"] = any(l in self.pages for l in lrus)
            if facts["resubmit"]:
                self.resubmissions += 1
        self.nb_write_ops += 1
        if kind == "page":
            self._page(B(op[1]), bool(op[2]))
        elif kind == "pages":
            for l in op[1]:
                self._page(B(l), bool(op[2]), k2=not op[2])
        elif kind == "links":
            for s, t in op[1]:
                self._page(B(s), False)
                self._page(B(t), False)
            for s, t in op[1]:
                self.links[(B(s), B(t))] += 1
        elif kind == "batch":
            for s, ts in op[1]:
                self._page(B(s), True)
                for t in ts:
                    self._page(B(t), False)
                    self.links[(B(s), B(t))] += 1
        elif kind == "create":
            for p in op[1]:
                self.name(B(p))
        elif kind == "delete":
            if out.status == "ok":
                for p in op[2]:
                    self.prefix_map.pop(B(p), None)
        elif kind == "addprefix":
            self.name(B(op[1]))
            if out.status == "ok":
                self.prefix_map[B(op[1])] = op[2]
        elif kind == "rmprefix":
            self.name(B(op[1]))
            if out.status == "ok":
                self.prefix_map.pop(B(op[1]), None)
        elif kind == "move":
            self.name(B(op[1]))
            if out.status == "ok":
                self.prefix_map[B(op[1])] = op[2]
        elif kind == "rule":
            self.name(B(op[1]))
            self.rules[B(op[1])] = op[2]
            self.flagged.add(B(op[1]))
        elif kind == "unrule":
            self.rules.pop(B(op[1]), None)
            self.flagged.discard(B(op[1]))
        elif kind == "reopen":
            pass
        elif kind == "clear":
            self.reset(op[1], {B(a): n for a, n in op[2]})
        elif kind == "recreate":
            if out.status == "ok":
                self.reset(self.default_rule, dict(self.rules))
        if out.status == "ok" and out.created:
            self.follow_created(out.created)
        return facts

    # -- applicability (used when replaying reduced histories) ---------------------------------------
    def applicable(self, op, backend="file"):
        kind = op[0]
        if kind == "unrule":
            return B(op[1]) in self.rules
        if kind in ("reopen", "recreate"):
            return backend == "file"
        if kind in ("addprefix",):
            return op[2] in self.issued
        if kind == "move":
            return op[2] in self.issued
        if kind == "delete":
            return len(op[2]) > 0
        if kind == "create":
            return len(op[1]) > 0 and len(set(B(p) for p in op[1])) == len(op[1])
        return True
