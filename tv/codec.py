"""JSON encoding of op arguments.  bytes -> "b:<latin-1>", str -> "s:<text>", tuples -> lists.
dicts keep str keys only (ops use lists of pairs wherever keys are LRUs)."""


def enc(x):
    if isinstance(x, (bytes, bytearray)):
        return "b:" + bytes(x).decode("latin-1")
    if isinstance(x, str):
        return "s:" + x
    if isinstance(x, (list, tuple)):
        return [enc(y) for y in x]
    if isinstance(x, (set, frozenset)):
        return [enc(y) for y in sorted(x, key=repr)]
    if isinstance(x, dict):
        return {str(k): enc(v) for k, v in x.items()}
    return x


def dec(x):
    if isinstance(x, str):
        if x.startswith("b:"):
            return x[2:].encode("latin-1")
        if x.startswith("s:"):
            return x[2:]
        raise ValueError("untagged string %r" % x)
    if isinstance(x, list):
        return [dec(y) for y in x]
    if isinstance(x, dict):
        return {k: dec(v) for k, v in x.items()}
    return x


def short(x, limit=60):
    """human-oriented abbreviation used in evidence samples"""
    if isinstance(x, (bytes, bytearray)):
        x = bytes(x)
        if len(x) > limit:
            return "%r...(%d bytes)" % (x[:limit], len(x))
        return repr(x)
    if isinstance(x, str):
        return x if len(x) <= limit else x[:limit] + "..."
    if isinstance(x, (list, tuple)):
        return [short(y, limit) for y in x]
    if isinstance(x, dict):
        return {str(k): short(v, limit) for k, v in x.items()}
    return x


ENCODING = ["utf-8"]      # the encoding of the index of the case being executed (one case at a time per process)


def set_encoding(enc_name):
    ENCODING[0] = enc_name or "utf-8"


def B(x):
    """the bytes an API argument stands for (text is encoded with the index's own encoding)"""
    return x.encode(ENCODING[0]) if isinstance(x, str) else bytes(x)
