"""Independent specification functions.  Nothing here imports traph.

An LRU is a byte string made of stems, each closed by b'|' (the stem includes its '|').
"""
import math
import re

PAYLOAD = 74  # stem bytes per trie block
TRIE_BLOCK = 128
LINK_BLOCK = 16


def stems_of(lru):
    out = []
    last = 0
    for i in range(len(lru)):
        if lru[i:i + 1] == b"|":
            out.append(lru[last:i + 1])
            last = i + 1
    return out


def well_formed(lru):
    return isinstance(lru, bytes) and len(lru) > 0 and lru.endswith(b"|")


def prefixes_of(lru, proper=False):
    """stem-prefixes of lru, shortest first (the LRU itself last unless proper=True)"""
    acc = b""
    res = []
    st = stems_of(lru)
    for i, s in enumerate(st):
        acc += s
        if proper and i == len(st) - 1:
            break
        res.append(acc)
    return res


def is_stem_prefix(p, lru):
    """p is a stem-prefix of lru (p == lru allowed)"""
    return lru.startswith(p) and p.endswith(b"|") and len(p) > 0


def parent_of(lru):
    return b"".join(stems_of(lru)[:-1])


def closure(lrus):
    res = set()
    for l in lrus:
        res.update(prefixes_of(l))
    return res


def blocks_for_stem(stem):
    return max(1, int(math.ceil(len(stem) / float(PAYLOAD))))


def expected_trie_blocks(closure_set):
    """1 header block + one block per 74 bytes of the last stem of every distinct stem-prefix"""
    return 1 + sum(blocks_for_stem(stems_of(l)[-1]) for l in closure_set)


def expected_tail_blocks(closure_set):
    return sum(blocks_for_stem(stems_of(l)[-1]) - 1 for l in closure_set)


# ---------------------------------------------------------------------------------------------
# scheme / www variations, written from the statement of C17 (on stems, not on substrings)

def _swap_scheme(st):
    if st and st[0] == b"s:http|":
        return [b"s:https|"] + st[1:]
    if st and st[0] == b"s:https|":
        return [b"s:http|"] + st[1:]
    return None


def _host_block(st):
    """indices (first, last) of the contiguous run of host stems that follows scheme and optional port"""
    i = 1
    if len(st) > 1 and st[1].startswith(b"t:"):
        i = 2
    first = i
    while i < len(st) and st[i].startswith(b"h:"):
        i += 1
    if i == first:
        return None
    return first, i - 1


def _swap_www(st):
    hb = _host_block(st)
    if hb is None:
        return None
    first, last = hb
    hosts = st[first:last + 1]
    if len(hosts) == 1:
        # a lone host stem (TLD, localhost, ...) has no www variation
        return None
    if hosts[-1] == b"h:www|":
        nh = hosts[:-1]
        if len(nh) == 1:
            return None
    else:
        nh = hosts + [b"h:www|"]
    return st[:first] + nh + st[last + 1:]


def variations(lru):
    st = stems_of(lru)
    res = [lru]
    sv = _swap_scheme(st)
    if sv:
        res.append(b"".join(sv))
    wv = _swap_www(st)
    if wv:
        res.append(b"".join(wv))
        sv2 = _swap_scheme(wv)
        if sv2:
            res.append(b"".join(sv2))
    return res


def differs_only_in_scheme_and_www(a, b):
    """b is obtained from a by changing nothing but the scheme stem (http<->https) and a trailing www host stem"""
    sa, sb = stems_of(a), stems_of(b)
    if not sa or not sb:
        return a == b
    # scheme
    if sa[0] != sb[0]:
        if {sa[0], sb[0]} != {b"s:http|", b"s:https|"}:
            return False
    ra, rb = sa[1:], sb[1:]
    if ra == rb:
        return True
    # www: one of them has exactly one more stem, 'h:www|', at the end of the host block
    if abs(len(ra) - len(rb)) != 1:
        return False
    longer, shorter = (ra, rb) if len(ra) > len(rb) else (rb, ra)
    hb = _host_block([b"s:x|"] + longer)
    if hb is None:
        return False
    last = hb[1] - 1  # index in `longer`
    if longer[last] != b"h:www|":
        return False
    return longer[:last] + longer[last + 1:] == shorter


# ---------------------------------------------------------------------------------------------
# resolution

def longest_prefix(prefix_map, lru):
    """(weid, prefix) of the longest stem-prefix of lru present in prefix_map, or (None, None)"""
    best = (None, None)
    for p in prefixes_of(lru):
        w = prefix_map.get(p)
        if w:
            best = (w, p)
    return best


def parents_of_webentity(prefix_map, weid):
    res = set()
    for p, w in prefix_map.items():
        if w != weid:
            continue
        for a in prefixes_of(p, proper=True):
            x = prefix_map.get(a)
            if x and x != weid:
                res.add(x)
    return res


def children_of_webentity(prefix_map, weid):
    res = set()
    mine = [p for p, w in prefix_map.items() if w == weid]
    for q, x in prefix_map.items():
        if x == weid:
            continue
        for p in mine:
            if q != p and q.startswith(p):
                res.add(x)
                break
    return res


# ---------------------------------------------------------------------------------------------
# pagination tokens (C09): "<i>#<base64 of path>", alphabet 0-9a-zA-Z-_

B64 = "0123456789abcdefghijklmnopqrstuvwxyzABCDEFGHIJKLMNOPQRSTUVWXYZ-_"


def path_from_digits(digits):
    """digits: iterable of 1/2/3 -> int whose base-4 representation is that string"""
    x = 0
    for d in digits:
        x = x * 4 + d
    return x


def token_text(i, path):
    if path == 0:
        s = "0"
    else:
        ds = []
        x = path
        while x:
            ds.append(B64[x % 64])
            x //= 64
        s = "".join(reversed(ds))
    return "%d#%s" % (i, s)


def compile_rule(pattern):
    return re.compile(pattern, re.I)
