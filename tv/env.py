"""Environment: make sure `traph` is imported from the tree under test (TV_REPO, default /repo)."""
import os
import sys
import warnings

REPO = os.path.realpath(os.environ.get("TV_REPO", "/repo"))
VERIF = os.path.realpath(os.path.join(os.path.dirname(__file__), ".."))

if REPO not in sys.path:
    sys.path.insert(0, REPO)

warnings.simplefilter("ignore")

import traph  # noqa: E402

_where = os.path.realpath(os.path.dirname(traph.__file__))
if not _where.startswith(REPO + os.sep):
    sys.stderr.write("HARNESS-ERROR: traph imported from %s, expected under %s\n" % (_where, REPO))
    sys.exit(2)

from traph import Traph, TraphException  # noqa: E402,F401
