"""Hypothesis strategies for LRUs.

A case first draws a small *vocabulary* of stems; LRUs are then short sequences over that vocabulary, so that
shared stem-prefixes, extensions and sibling sets of size >= 3 are the norm.  Lists of LRUs for one request are
drawn *relationally* (the next LRU is, with probability ~1/2, a relative of the previous one: an extension, a
sibling or a stem-prefix), because stale-node bugs only show when one request contains a new LRU that is a child or
a sibling of a node the request already holds.
"""
from hypothesis import strategies as st

from .spec import stems_of

# stem lengths, counted with the closing '|'  (74 = one block payload)
BOUNDARY_LENS = [1, 2, 3, 5, 72, 73, 74, 75, 76, 146, 147, 148, 149, 150, 221, 222, 223, 300, 600]
SMALL_LENS = [1, 2, 3, 4, 5, 8]
import os as _os
if _os.environ.get("TV_TIER") == "thorough":       # set by tv.runner from the tier actually requested
    # deeper bounds in the thorough tier: more exact multiples of the payload, stems of a dozen and of forty blocks
    BOUNDARY_LENS = BOUNDARY_LENS + [296, 297, 370, 444, 1000, 2960, 2961]

NOT_BAR = [b for b in range(256) if b != 0x7C]
AROUND_BAR = [0x7A, 0x7B, 0x7D, 0x7E, 0x7F, 0x00, 0xFF, 0x2F, 0x0A, 0x0D]

ADVERSARIAL_BODIES = [
    b"", b"a", b"b", b"s:http", b"s:https", b"xs:http", b"s:http|"[:-1] + b"x", b"h:", b"h:www", b"h:com",
    b"~", b"}", b"\x00", b"\xff", b"\x7f", b"a}", b"a!", b"a\x00", b"A", b"www", b"a\nb", b"\n", b"a\r\nb", b" ", b"a b",
    "\u00e9".encode("utf-8"), "caf\u00e9".encode("utf-8"), "\u65e5\u672c".encode("utf-8"), "\U0001f600".encode("utf-8"),
]


@st.composite
def raw_body(draw, n):
    """n arbitrary non-'|' bytes from a drawn alphabet"""
    if n == 0:
        return b""
    alpha = draw(st.sampled_from(["all", "ab", "a", "bar"]))
    if alpha == "a":
        return b"a" * n
    if alpha == "ab":
        # long common head, differences near the end and at the block boundary
        base = bytearray(b"a" * n)
        k = draw(st.integers(0, min(3, n)))
        for _ in range(k):
            pos = draw(st.sampled_from(sorted({0, n - 1, min(n - 1, 72), min(n - 1, 73), min(n - 1, 74), n // 2})))
            base[pos] = 0x62
        return bytes(base)
    pool = NOT_BAR if alpha == "all" else AROUND_BAR
    if n <= 8:
        return bytes(draw(st.lists(st.sampled_from(pool), min_size=n, max_size=n)))
    head = bytes(draw(st.lists(st.sampled_from(pool), min_size=4, max_size=4)))
    tail = bytes(draw(st.lists(st.sampled_from(pool), min_size=2, max_size=2)))
    fill = bytes([draw(st.sampled_from(pool))])
    return head + fill * (n - 6) + tail


@st.composite
def raw_stem(draw, long_bias=0.5):
    if draw(st.floats(0, 1)) < long_bias:
        n = draw(st.sampled_from(BOUNDARY_LENS))
    else:
        n = draw(st.sampled_from(SMALL_LENS))
    return draw(raw_body(n - 1)) + b"|"


@st.composite
def path_stem(draw, long_bias=0.25):
    if draw(st.integers(0, 24)) == 0:
        return b"|"          # the empty stem: well-formed (zero non-separator bytes closed by '|')
    kind = draw(st.sampled_from([b"p:", b"p:", b"p:", b"q:", b"f:", b"P:"]))
    r = draw(st.floats(0, 1))
    if r < long_bias:
        n = draw(st.sampled_from([72, 73, 74, 75, 76, 147, 148, 149, 222, 223, 300]))
        body = draw(raw_body(max(0, n - 3)))
    elif r < long_bias + 0.35:
        body = draw(st.sampled_from(ADVERSARIAL_BODIES))
    else:
        body = draw(st.sampled_from([b"a", b"b", b"c", b"d", b"aa", b"ab", b"z"]))
    return kind + body + b"|"


HOST_VOCAB = [b"h:com|", b"h:fr|", b"h:a|", b"h:b|", b"h:www|", b"h:twitter|", b"h:c|", b"h:WWW|"]
SPECIAL_HOSTS = [b"h:localhost|", b"h:127.0.0.1|", b"h:\xff\xfe|", b"h:LOCALHOST|", b"h:[FE80::1]|", b"h:[fe80::1]|"]
SCHEMES = [b"s:http|", b"s:http|", b"s:https|", b"s:https|", b"s:ftp|"]
PORTS = [b"t:80|", b"t:8080|"]


class Vocab(object):
    """the per-case stem vocabulary"""

    def __init__(self, mode, hosts, paths, raws):
        self.mode = mode      # 'url' | 'raw' | 'mixed'
        self.hosts = hosts
        self.paths = paths
        self.raws = raws

    def to_json(self):
        from .codec import enc
        return {"mode": self.mode, "hosts": enc(self.hosts), "paths": enc(self.paths), "raws": enc(self.raws)}


@st.composite
def vocab(draw, modes=("url", "raw", "mixed"), long_bias=0.25):
    mode = draw(st.sampled_from(list(modes)))
    hosts = list(HOST_VOCAB)
    if draw(st.integers(0, 3)) == 0:
        # lone-host forms of the rules (localhost, IP literals), spellings that match them only case-insensitively, odd bytes;
        # placed FIRST too, so that they are drawn as the single (TLD-position) host
        sp = draw(st.sampled_from(SPECIAL_HOSTS))
        hosts.append(sp)
        if draw(st.booleans()):
            hosts.insert(0, sp)
    npaths = draw(st.integers(3, 6))
    paths = draw(st.lists(path_stem(long_bias), min_size=npaths, max_size=npaths, unique=True))
    raws = []
    if mode != "url":
        nraw = draw(st.integers(3, 6))
        raws = draw(st.lists(raw_stem(0.5 if long_bias > 0 else 0.0), min_size=nraw, max_size=nraw, unique=True))
    # twins: for a multi-block stem, one more stem with the SAME first 74 bytes and a different tail, sorting below or above it
    # (sibling stems that only differ beyond the first block are where head-only comparisons go wrong)
    for pool in (paths, raws):
        longs = [s for s in pool if len(s) > 76]
        if longs and draw(st.booleans()):
            base = draw(st.sampled_from(longs))
            body = base[:-1]
            kind = draw(st.sampled_from(["lower", "higher", "longer", "shorter"]))
            last = body[-1]
            if kind == "lower" and last > 0:
                tw = body[:-1] + bytes([last - 1 if last - 1 != 0x7C else last - 2])
            elif kind == "higher" and last < 255:
                tw = body[:-1] + bytes([last + 1 if last + 1 != 0x7C else last + 2])
            elif kind == "shorter":
                tw = body[:-1]
            else:
                tw = body + bytes([draw(st.sampled_from([0x00, 0x61, 0xFF]))])
            tw = tw + b"|"
            if len(tw) > 75 and tw not in pool:
                pool.append(tw)
    return Vocab(mode, hosts, paths, raws)


def _fix_www(hosts):
    while len(hosts) >= 2 and hosts[-1] == b"h:www|" and hosts[-2] == b"h:www|":
        hosts = hosts[:-1]
    return hosts


@st.composite
def url_lru(draw, v, min_hosts=0, max_hosts=4, max_paths=3):
    scheme = draw(st.sampled_from(SCHEMES))
    port = b""
    if draw(st.integers(0, 9)) == 0:
        port = draw(st.sampled_from(PORTS))
    nh = draw(st.sampled_from([2, 2, 2, 3, 3, 1, 0, 4]))
    nh = max(min_hosts, min(max_hosts, nh))
    hosts = []
    if nh:
        hosts.append(draw(st.sampled_from(v.hosts[:2] + v.hosts[:2] + v.hosts)))
        for _ in range(nh - 1):
            hosts.append(draw(st.sampled_from(v.hosts[2:])))
    hosts = _fix_www(hosts)
    np_ = draw(st.sampled_from([0, 1, 1, 2, 2, 3]))
    np_ = min(np_, max_paths)
    paths = [draw(st.sampled_from(v.paths)) for _ in range(np_)]
    return scheme + port + b"".join(hosts) + b"".join(paths)


@st.composite
def raw_lru(draw, v):
    n = draw(st.sampled_from([1, 1, 2, 2, 3, 3, 4, 5]))
    return b"".join(draw(st.sampled_from(v.raws)) for _ in range(n))


@st.composite
def any_lru(draw, v):
    if v.mode == "url":
        return draw(url_lru(v))
    if v.mode == "raw":
        return draw(raw_lru(v))
    if draw(st.booleans()):
        return draw(url_lru(v))
    return draw(raw_lru(v))


def _is_url(lru):
    return lru.startswith(b"s:")


@st.composite
def relative_of(draw, v, base):
    """an LRU related to base: extension by one stem, sibling (last stem replaced), or a stem-prefix"""
    st_ = stems_of(base)
    url = _is_url(base)
    pool = v.paths if url or not v.raws else v.raws
    kind = draw(st.sampled_from(["ext", "ext", "sib", "sib", "pre"]))
    if kind == "pre" and len(st_) > (2 if url else 1):
        k = draw(st.integers(2 if url else 1, len(st_) - 1))
        return b"".join(st_[:k])
    if kind == "sib" and len(st_) > 1:
        last = st_[-1]
        if url and last.startswith(b"h:"):
            cand = draw(st.sampled_from(v.hosts[2:]))
            new = st_[:-1] + [cand]
            hosts = [s for s in new if s.startswith(b"h:")]
            if len(hosts) >= 2 and hosts[-1] == b"h:www|" and hosts[-2] == b"h:www|":
                return base
            return b"".join(new)
        if url and (last.startswith(b"s:") or last.startswith(b"t:")):
            return base
        return b"".join(st_[:-1]) + draw(st.sampled_from(pool))
    # extension
    if url and st_[-1].startswith(b"h:") and draw(st.integers(0, 3)) == 0:
        cand = draw(st.sampled_from(v.hosts[2:]))
        if not (cand == b"h:www|" and st_[-1] == b"h:www|"):
            return base + cand
    if url and (len(st_) == 1 or st_[-1].startswith(b"t:")):
        return base + draw(st.sampled_from(v.hosts[:2]))
    return base + draw(st.sampled_from(pool))


@st.composite
def lru_from(draw, v, known, fresh=0.35):
    """an LRU: a known one, a relative of a known one, or a fresh one"""
    known = list(known)
    r = draw(st.floats(0, 1))
    if known and r > fresh:
        base = draw(st.sampled_from(known))
        if draw(st.booleans()):
            return base
        return draw(relative_of(v, base))
    return draw(any_lru(v))


@st.composite
def lru_list(draw, v, known, min_size=0, max_size=5):
    """a list of LRUs for ONE request, drawn relationally"""
    n = draw(st.integers(min_size, max_size))
    out = []
    for _ in range(n):
        if out and draw(st.booleans()):
            base = draw(st.sampled_from(out))
            if draw(st.integers(0, 4)) == 0:
                out.append(base)
            else:
                out.append(draw(relative_of(v, base)))
        else:
            out.append(draw(lru_from(v, known)))
    return out


def maybe_text(draw, lru, one_in=20):
    """about 5 % of LRUs are handed to the API as str (decoded with the index's own encoding, so that the library encodes
    them back to the same bytes; the ledger keeps the bytes)"""
    from .codec import ENCODING
    if draw(st.integers(0, one_in - 1)) == 0:
        try:
            t = lru.decode(ENCODING[0])
            if t.encode(ENCODING[0]) == lru:
                return t
        except UnicodeError:
            pass
    return lru
@st.composite
def lru_under(draw, v, base):
    """a URL LRU beneath `base` (a rule anchor or a webentity prefix): base + hosts (if base still ends in the host part)
    + 0-3 path stems, so that rules anchored at base see LRUs on which they propose something"""
    sts = stems_of(base)
    out = base
    if sts and (sts[-1].startswith(b"s:") or sts[-1].startswith(b"t:") or sts[-1].startswith(b"h:")):
        nh = sum(1 for x in sts if x.startswith(b"h:"))
        want = draw(st.sampled_from([2, 2, 3, 3, 1]))
        last = sts[-1]
        while nh < want:
            cand = draw(st.sampled_from(v.hosts[:2] if nh == 0 else v.hosts[2:]))
            if cand == b"h:www|" and last == b"h:www|":
                break
            out += cand
            last = cand
            nh += 1
    for _ in range(draw(st.sampled_from([0, 1, 1, 2, 2, 3]))):
        out += draw(st.sampled_from(v.paths))
    return out
