"""Reference model of automatic webentity creation, written from the statement of C06 (not from the code):

  E = longest attached stem-prefix of the LRU;  K = longest proposal of the rules anchored on its stem-prefixes
  (default rule only if no rule proposes and E is absent);  a webentity is created iff |K| > |E| and owns K plus every
  scheme/www variation of K not already owned;  afterwards the page resolves to max(E, K).

Rule patterns are evaluated with Python's re on the same pattern bytes (the regex engine is not under test)."""
from .codec import B
from .rules import RULES
from .spec import prefixes_of, variations, compile_rule, longest_prefix


class Predictor(object):
    def __init__(self, default_rule, rules):
        self.reset(default_rule, rules)

    def reset(self, default_rule, rules):
        self.we = {}            # prefix -> id
        self.pages = set()
        self.default = compile_rule(RULES[default_rule])
        self.rules = {}         # anchor -> compiled pattern, for anchors whose node is flagged
        for a, n in rules.items():
            self.rules[B(a)] = compile_rule(RULES[n])

    def copy(self):
        p = Predictor.__new__(Predictor)
        p.we = dict(self.we)
        p.pages = set(self.pages)
        p.default = self.default
        p.rules = dict(self.rules)
        return p

    # -- the decision ladder ----------------------------------------------------------------------
    def E(self, lru):
        return longest_prefix(self.we, lru)[1] or b""

    def K_rules(self, lru):
        best = b""
        for a in prefixes_of(lru):
            r = self.rules.get(a)
            if r is None:
                continue
            m = r.search(lru)
            if m and m.group() and len(m.group()) > len(best):
                best = m.group()
        return best

    def decide(self, lru):
        """(E, K, from_anchored_rule): K includes the default rule's proposal when it is consulted"""
        e = self.E(lru)
        k = self.K_rules(lru)
        anchored = bool(k)
        if not k and not e:
            m = self.default.search(lru)
            if m and m.group():
                k = m.group()
        return e, k, anchored

    def potential(self, lru):
        e, k, _ = self.decide(lru)
        if len(k) > len(e):
            return k
        return e or None

    def insert_page(self, lru, simulate=False):
        """returns the set of prefixes of the webentity this insertion creates (None if none)"""
        e, k, _ = self.decide(lru)
        created = None
        if len(k) > len(e):
            valid = [v for v in variations(k) if v not in self.we]
            if valid:
                created = valid
        if not simulate:
            self.pages.add(lru)
        return created

    def attach(self, prefixes, weid):
        for p in prefixes:
            self.we[p] = weid

    # -- whole requests: list of page insertions in program order ----------------------------------------
    @staticmethod
    def insertion_order(op):
        kind = op[0]
        seen = []
        if kind == "page":
            seen = [B(op[1])]
        elif kind == "pages":
            seen = [B(x) for x in op[1]]        # every element is inserted, duplicates too (no-ops the second time)
        elif kind == "links":
            for s, t in op[1]:
                for x in (B(s), B(t)):
                    if x not in seen:
                        seen.append(x)
        elif kind == "batch":
            for s, ts in op[1]:
                for x in [B(s)] + [B(t) for t in ts]:
                    if x not in seen:
                        seen.append(x)
        return seen
