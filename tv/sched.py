"""Cooperative scheduler for Traph's generator requests (C16).

The long-running requests of the library are Python generators that yield a TraphIteratorState whenever
state.should_yield(freq) says so.  The harness owns the schedule: it replaces should_yield by "always" (every loop
iteration that has a yield site becomes a yield point, as C16's quantifier says) and decides which request advances next.
"""
from . import env  # noqa: F401
from traph.traph_iterator_state import TraphIteratorState
from .rules import RULES
from .codec import B

_ORIG = TraphIteratorState.should_yield


def every_iteration_yields():
    def should_yield(self, yield_frequency=1000):
        self.n_iterations += 1
        return True
    TraphIteratorState.should_yield = should_yield


def restore():
    TraphIteratorState.should_yield = _ORIG


WRITERS = ("batch", "rule")


def make_generator(t, req):
    kind = req[0]
    if kind == "batch":
        data = {}
        for s, ts in req[1]:
            data[s] = list(ts)
        return t.index_batch_crawl_iter(data, 1)
    if kind == "rule":
        return t.add_webentity_creation_rule_iter(req[1], RULES[req[2]])
    if kind == "q-pages":
        return t.get_webentity_pages_iter(req[1], list(req[2]))
    if kind == "q-crawled":
        return t.get_webentity_crawled_pages_iter(req[1], list(req[2]))
    if kind == "q-pagelinks":
        f = req[3]
        return t.get_webentity_pagelinks_iter(req[1], list(req[2]), include_inbound=f[0], include_internal=f[1],
                                              include_outbound=f[2])
    if kind == "q-children":
        return t.get_webentity_child_webentities_iter(req[1], list(req[2]))
    if kind == "q-mostlinked":
        return t.get_webentity_most_linked_pages_iter(req[1], list(req[2]), pages_count=1000)
    if kind == "q-outlinks":
        return t.get_webentity_outlinks_iter(req[1], list(req[2]))
    if kind == "q-inlinks":
        return t.get_webentity_inlinks_iter(req[1], list(req[2]))
    if kind == "q-network":
        return t.get_webentities_links_iter(out=req[1], include_auto=req[2])
    if kind == "q-network-slow":
        return t.get_webentities_links_slow_iter(out=req[1], include_auto=req[2])
    raise ValueError(kind)


class Run(object):
    """one execution of a set of generator requests under a given choice sequence"""

    def __init__(self, t, requests, choices, on_step=None, default="first", eager=False):
        self.eager = eager       # create every request object before the first step (a caller may well do that)
        self.t = t
        self.requests = requests
        self.gens = [None] * len(requests)
        self.started = [False] * len(requests)
        self.done = [False] * len(requests)
        self.results = [None] * len(requests)
        self.steps = [0] * len(requests)
        self.trace = []          # (request index, number of alive requests at that decision)
        self.decisions = []      # at each decision point: (alive list, chosen position)
        self.choices = list(choices)
        self.on_step = on_step
        self.default = default
        self.switches_between_unfinished = 0

    def alive(self):
        return [i for i in range(len(self.requests)) if not self.done[i]]

    def run(self, max_steps=100000):
        if self.eager:
            for i in range(len(self.requests)):
                if self.gens[i] is None:
                    if self.on_step:
                        self.on_step("before-start", i, self)
                    self.gens[i] = make_generator(self.t, self.requests[i])
                    self.started[i] = True
        last = None
        ci = 0
        n = 0
        while True:
            al = self.alive()
            if not al:
                break
            if ci < len(self.choices):
                pos = self.choices[ci] % len(al)
            elif self.default == "first":
                pos = 0
            else:  # round-robin
                pos = (al.index(last) + 1) % len(al) if last in al else 0
            ci += 1
            i = al[pos]
            self.decisions.append((list(al), pos))
            if last is not None and last != i and last in al:
                self.switches_between_unfinished += 1
            self.advance(i)
            last = i
            n += 1
            if n > max_steps:
                raise RuntimeError("schedule does not terminate")
        return self.results

    def advance(self, i):
        if self.gens[i] is None:
            if self.on_step:
                self.on_step("before-start", i, self)
            self.gens[i] = make_generator(self.t, self.requests[i])
            self.started[i] = True
        from .ops import reset_budget
        reset_budget()
        try:
            state = next(self.gens[i])
        except StopIteration:
            self.done[i] = True
            if self.on_step:
                self.on_step("after-step", i, self)
            return
        self.steps[i] += 1
        if state.done:
            self.done[i] = True
            self.results[i] = state.result
            # exhaust (the generators end right after finalize)
            for _ in self.gens[i]:
                pass
        if self.on_step:
            self.on_step("after-step", i, self)


def request_lrus(req):
    if req[0] == "batch":
        out = []
        for s, ts in req[1]:
            out.append(B(s))
            out += [B(x) for x in ts]
        return out
    if req[0] == "rule":
        return [B(req[1])]
    return []
