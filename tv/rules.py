"""Hyphe's family of webentity creation rules.  These pattern bytes are *inputs* to the index
(copied from /repo/test/config.py, which is how Hyphe configures the library); they are not code under test."""

_HOSTS1 = b"(h:[^\\|]+\\|(h:[^\\|]+\\|)|h:(localhost|(\\d{1,3}\\.){3}\\d{1,3}|\\[[\\da-f]*:[\\da-f:]*\\])\\|)"
_HOSTSN = b"(h:[^\\|]+\\|(h:[^\\|]+\\|)+|h:(localhost|(\\d{1,3}\\.){3}\\d{1,3}|\\[[\\da-f]*:[\\da-f:]*\\])\\|)"
_HEAD = b"(s:[a-zA-Z]+\\|(t:[0-9]+\\|)?"

RULES = {
    "domain": _HEAD + _HOSTS1 + b")",
    "subdomain": _HEAD + _HOSTSN + b")",
    "path1": _HEAD + _HOSTSN + b"(p:[^\\|]+\\|){1})",
    "path2": _HEAD + _HOSTSN + b"(p:[^\\|]+\\|){2})",
    "path3": _HEAD + _HOSTSN + b"(p:[^\\|]+\\|){3})",
    "path4": _HEAD + _HOSTSN + b"(p:[^\\|]+\\|){4})",
}

RULES["none"] = b""          # a legal configuration: an empty default rule never proposes anything

DEFAULT_RULE_NAMES = ["domain", "subdomain", "path1", "path2", "domain", "subdomain", "none"]
ANCHORED_RULE_NAMES = ["domain", "subdomain", "path1", "path2", "path3", "path4"]
