"""Op vocabulary and executor against a real Traph.

An op is a plain tuple (kind, args...) made of bytes/str/int/bool/lists, JSON-able through tv.codec.
`Index` owns one real Traph (file or memory back-end) and applies ops to it, returning an `Outcome`.
"""
import os
import shutil
import tempfile
import traceback

from .env import Traph, TraphException
from .rules import RULES
from .codec import B, enc, dec

# ---------------------------------------------------------------------------------------------------------------
# A request that never returns cannot be judged by any oracle.  Instead of a wall-clock timeout (never a verdict), every
# call into the library gets a deterministic BUDGET of storage operations (block reads + writes); histories here need
# 10^2..10^6 of them per public call, the budget is 10^7 per call (reset at the entry of every public Traph method).  Exceeding it raises RunawayRequest from inside the storage
# call, which surfaces as an exception of the request (a violation of the property being checked, clause 'exception').
BUDGET = [0]
DEPTH = [0]
LIMIT = 10000000


class RunawayRequest(Exception):
    pass


def reset_budget():
    BUDGET[0] = 0
    DEPTH[0] = 0


def _install_budget():
    from traph.storage.file import FileStorage
    from traph.storage.memory import MemoryStorage
    for cls in (FileStorage, MemoryStorage):
        for name in ("read", "write"):
            orig = getattr(cls, name)
            if getattr(orig, "_tv_budget", False):
                continue

            def make(orig):
                def f(self, *a, **k):
                    BUDGET[0] += 1
                    if BUDGET[0] > LIMIT:
                        BUDGET[0] = 0
                        raise RunawayRequest("the request issued more than %d storage operations: it does not terminate" % LIMIT)
                    return orig(self, *a, **k)
                f._tv_budget = True
                return f
            setattr(cls, name, make(orig))


def _install_resets():
    """the budget is per public API call: every public method of Traph resets it on entry"""
    import functools
    from .env import Traph
    for name in dir(Traph):
        if name.startswith("_"):
            continue
        orig = getattr(Traph, name)
        if not callable(orig) or getattr(orig, "_tv_reset", False):
            continue

        def make(orig):
            @functools.wraps(orig)
            def f(*a, **k):
                # only the OUTERMOST public call resets (the library calls its own public helpers, e.g. expand_prefix)
                if DEPTH[0] == 0:
                    BUDGET[0] = 0
                DEPTH[0] += 1
                try:
                    return orig(*a, **k)
                finally:
                    DEPTH[0] -= 1
            f._tv_reset = True
            return f
        setattr(Traph, name, make(orig))


_install_budget()
_install_resets()

WRITE_KINDS = ("page", "pages", "links", "batch", "create", "delete", "addprefix", "rmprefix", "move",
               "rule", "unrule", "reopen", "clear", "recreate")


def scratch_root():
    for d in ("/dev/shm", tempfile.gettempdir()):
        if os.path.isdir(d) and os.access(d, os.W_OK):
            return d
    return None


class Outcome(object):
    __slots__ = ("status", "new_pages", "created", "ret", "exc", "tb")

    def __init__(self, status, new_pages=0, created=None, ret=None, exc=None, tb=None):
        self.status = status        # 'ok' | 'refused' (TraphException) | 'error' (any other exception)
        self.new_pages = new_pages
        self.created = created or {}  # weid -> [prefix bytes]
        self.ret = ret
        self.exc = exc
        self.tb = tb

    def describe(self):
        if self.status == "ok":
            return {"status": "ok", "new_pages": self.new_pages,
                    "created": {str(k): enc(v) for k, v in self.created.items()}}
        return {"status": self.status, "exc": repr(self.exc), "tb": self.tb}


def _report(rep):
    created = {}
    for k, v in rep.created_webentities.items():
        created[k] = [bytes(p) for p in v]
    return Outcome("ok", new_pages=rep.nb_created_pages, created=created, ret=rep)


class Config(object):
    def __init__(self, backend="file", overwrite=True, default_rule="domain", rules=None, encoding="utf-8"):
        self.backend = backend          # 'file' | 'memory'
        self.overwrite = overwrite
        self.default_rule = default_rule
        self.rules = dict(rules or {})  # anchor (bytes, or text) -> rule name (rules given to the constructor)
        self.encoding = encoding

    def to_json(self):
        return {"backend": self.backend, "overwrite": self.overwrite, "default_rule": self.default_rule,
                "rules": [[enc(a), n] for a, n in self.rules.items()], "encoding": self.encoding}

    @staticmethod
    def from_json(j):
        return Config(j["backend"], j["overwrite"], j["default_rule"], {dec(a): n for a, n in j["rules"]},
                      j.get("encoding", "utf-8"))

    def copy(self):
        return Config(self.backend, self.overwrite, self.default_rule, dict(self.rules), self.encoding)


class Index(object):
    """a real Traph plus the bookkeeping needed to reopen it with the rules re-supplied"""

    def __init__(self, config, folder=None):
        self.config = config
        self.default_rule = config.default_rule
        self.encoding = config.encoding
        self.rules = {}                   # current anchored rules (RAM side), anchor BYTES -> name
        self.rule_keys = {}               # anchor bytes -> the key object the user supplied (bytes or text), re-supplied on reopen
        for a, n in config.rules.items():
            self.rules[a.encode(config.encoding) if isinstance(a, str) else a] = n
            self.rule_keys[a.encode(config.encoding) if isinstance(a, str) else a] = a
        self.own_folder = False
        self.folder = None
        if config.backend == "file":
            if folder is None:
                folder = tempfile.mkdtemp(prefix="tv-", dir=scratch_root())
                self.own_folder = True
            self.folder = folder
        self.traph = None
        self.open(config.overwrite, dict(self.rules))

    # -- lifecycle ---------------------------------------------------------------------------
    def open(self, overwrite, rules):
        self.traph = Traph(folder=self.folder, overwrite=overwrite, encoding=self.encoding,
                           default_webentity_creation_rule=RULES[self.default_rule],
                           webentity_creation_rules={self.rule_keys.get(a, a): RULES[n] for a, n in rules.items()})

    def close(self):
        if self.traph is not None:
            try:
                self.traph.close()
            except Exception:
                pass
            self.traph = None

    def destroy(self):
        self.close()
        if self.own_folder and self.folder and os.path.isdir(self.folder):
            shutil.rmtree(self.folder, ignore_errors=True)

    def reopen(self):
        self.traph.close()
        # the closed object stays referenced, as it does in a caller's variable: dropping it would let the garbage
        # collector close (and flush) handles that close() left open
        self.__dict__.setdefault("_closed_objects", []).append(self.traph)
        self.traph = None
        self.open(False, dict(self.rules))

    def flush(self):
        t = self.traph
        if t is not None and not t.in_memory:
            # the handles the storages actually write through
            t.lru_trie_storage.file.flush()
            t.links_store_storage.file.flush()

    def raw(self):
        """(trie bytes, link store bytes) as they are in the store right now"""
        t = self.traph
        if t.in_memory:
            return bytes(t.lru_trie_storage.array), bytes(t.links_store_storage.array)
        self.flush()
        with open(t.lru_trie_path, "rb") as f:
            a = f.read()
        with open(t.link_store_path, "rb") as f:
            b = f.read()
        return a, b

    # -- ops -----------------------------------------------------------------------------------
    def apply(self, op):
        kind = op[0]
        t = self.traph
        reset_budget()
        try:
            if kind == "page":
                return _report(t.add_page(op[1], crawled=op[2]))
            if kind == "pages":
                if len(op[1]) % 2 == 1:
                    return _report(t.add_pages(iter(list(op[1])), crawled=op[2]))
                return _report(t.add_pages(list(op[1]), crawled=op[2]))
            if kind == "links":
                pairs = [(s, d) for s, d in op[1]]
                if len(pairs) % 2 == 1:
                    # the API takes any iterable of pairs: odd-sized requests travel as a one-shot generator
                    return _report(t.add_links((p_ for p_ in pairs)))
                return _report(t.add_links(pairs))
            if kind == "batch":
                data = {}
                for s, ts in op[1]:
                    if s in data:
                        raise ValueError("unknown op kind: batch rows with the same source key %r (harness bug)" % (s,))
                    data[s] = list(ts)
                return _report(t.index_batch_crawl(data, yield_frequency=(op[2] if len(op) > 2 else 1)))
            if kind == "create":
                return _report(t.create_webentity(list(op[1])))
            if kind == "delete":
                if len(op) > 3 and op[3] == "unchecked":
                    # check_for_corruption=False: the webentity id is documented as ignored
                    return Outcome("ok", ret=t.delete_webentity(op[1], list(op[2]), check_for_corruption=False))
                return Outcome("ok", ret=t.delete_webentity(op[1], list(op[2])))
            if kind == "addprefix":
                return Outcome("ok", ret=t.add_prefix_to_webentity(op[1], op[2]))
            if kind == "rmprefix":
                return Outcome("ok", ret=t.remove_prefix_from_webentity(op[1], op[2]))
            if kind == "move":
                if len(B(op[1])) % 2 == 1:
                    # the explicit alias, with keyword arguments
                    return Outcome("ok", ret=t.move_prefix_to_webentity_from_webentity(op[1], weid_target=op[2], weid_source=op[3]))
                return Outcome("ok", ret=t.move_prefix_to_webentity(op[1], op[2], op[3]))
            if kind == "rule":
                out = _report(t.add_webentity_creation_rule(op[1], RULES[op[2]]))
                self.rules[B(op[1])] = op[2]
                self.rule_keys[B(op[1])] = op[1]
                return out
            if kind == "unrule":
                ret = t.remove_webentity_creation_rule(op[1])
                self.rules.pop(B(op[1]), None)
                return Outcome("ok", ret=ret)
            if kind == "reopen":
                self.reopen()
                return Outcome("ok")
            if kind == "recreate":
                # close, then construct again on the SAME (populated) folder with overwrite=True and the current rules
                self.traph.close()
                self.__dict__.setdefault("_closed_objects", []).append(self.traph)
                self.traph = None
                self.open(True, dict(self.rules))
                return Outcome("ok")
            if kind == "clear":
                rules = {a: n for a, n in op[2]}
                if len(op) > 3 and op[3]:
                    t.close()
                t.clear(RULES[op[1]], {a: RULES[n] for a, n in rules.items()})
                self.default_rule = op[1]
                self.rules = {B(a): n for a, n in rules.items()}
                self.rule_keys = {B(a): a for a in rules}
                return Outcome("ok")
            raise ValueError("unknown op kind %r" % (kind,))
        except TraphException as e:
            return Outcome("refused", exc=e)
        except (KeyboardInterrupt, SystemExit, MemoryError):
            raise
        except ValueError as e:
            if "unknown op kind" in str(e):
                raise
            return Outcome("error", exc=e, tb=traceback.format_exc())
        except Exception as e:  # the code under test failed
            return Outcome("error", exc=e, tb=traceback.format_exc())


def op_to_json(op):
    return enc(list(op))


def op_from_json(j):
    return tuple(_tuplify(dec(j)))


def _tuplify(x):
    # pairs inside 'links' / 'batch' / 'clear' are used positionally, lists work as well as tuples
    return x
