"""Write-log recorder and file reconstruction at a cut (C18).

The harness wraps FileStorage.write in its own process: every write the library issues is appended, in program order, to the
log of the recorder attached to that storage's file.  A *cut* keeps an initial part of the log: k whole writes, plus
optionally the first b bytes of write k+1 when that write appends (in-place block rewrites are taken as atomic, as C18 states).
"""
import os

from . import env  # noqa: F401
from traph.storage.file import FileStorage

_ACTIVE = {}          # realpath of a store file -> (recorder, 'trie' | 'link')
_ORIG_WRITE = FileStorage.write


def _patched_write(self, data, block=None):
    key = None
    try:
        key = _ACTIVE.get(os.path.realpath(self.file.name))
    except Exception:
        key = None
    if key is not None:
        rec, which = key
        self.file.seek(0, os.SEEK_END)
        size = self.file.tell()
        off = size if block is None else block
        rec.log.append((which, off, bytes(data), off + len(data) > size))
    return _ORIG_WRITE(self, data, block)


FileStorage.write = _patched_write

# Opening a store with mode "wb+" (constructor with overwrite / first creation, clear()) empties the file: that is an event of
# the program-ordered history too (a crash between the two truncations of clear() leaves one store emptied and the other
# intact).  The library calls the builtin open() from traph/traph.py; the harness gives that module its own `open` that logs
# truncations of recorded files.  Logged as (which, -1, b"", False).
import builtins
import traph.traph as _traph_module


def _recording_open(path, mode="r", *a, **k):
    try:
        key = _ACTIVE.get(os.path.realpath(path)) if isinstance(path, (str, bytes)) else None
    except Exception:
        key = None
    f = builtins.open(path, mode, *a, **k)
    if key is not None and "w" in mode:
        rec, which = key
        rec.log.append((which, -1, b"", False))
    return f


_traph_module.open = _recording_open


class Recorder(object):
    def __init__(self, folder):
        self.folder = folder
        self.log = []            # (which, offset, data, grows)
        self.marks = []          # len(log) after each op (op boundaries)
        _ACTIVE[os.path.realpath(os.path.join(folder, "lru_trie.dat"))] = (self, "trie")
        _ACTIVE[os.path.realpath(os.path.join(folder, "link_store.dat"))] = (self, "link")

    def detach(self):
        for k in [k for k, v in _ACTIVE.items() if v[0] is self]:
            del _ACTIVE[k]

    def mark(self):
        self.marks.append(len(self.log))

    def rebuild(self, k, partial=0):
        """(trie bytes, link bytes) after the first k writes and the first `partial` bytes of write k"""
        bufs = {"trie": bytearray(), "link": bytearray()}
        for which, off, data, grows in self.log[:k]:
            if off == -1:
                bufs[which] = bytearray()       # truncation
                continue
            b = bufs[which]
            if len(b) < off:
                b.extend(b"\x00" * (off - len(b)))
            b[off:off + len(data)] = data
        if partial:
            which, off, data, grows = self.log[k]
            b = bufs[which]
            if len(b) < off:
                b.extend(b"\x00" * (off - len(b)))
            b[off:off + partial] = data[:partial]
        return bytes(bufs["trie"]), bytes(bufs["link"])


def write_folder(folder, trie, link):
    os.makedirs(folder, exist_ok=True)
    for name, data in (("lru_trie.dat", trie), ("link_store.dat", link)):
        p = os.path.join(folder, name)
        if data is None:
            if os.path.exists(p):
                os.remove(p)
        else:
            with open(p, "wb") as f:
                f.write(data)
