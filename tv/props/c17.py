"""C17 Prefix variations form closed classes and are attached as a whole."""
import itertools

from hypothesis import strategies as st

from ..core import Prop, Case, run_given
from ..ops import Config
from ..spec import variations, differs_only_in_scheme_and_www, stems_of
from ..lru import ADVERSARIAL_BODIES, raw_body

HOSTS = [b"h:com|", b"h:a|", b"h:www|"]
SCHEMES3 = [b"s:http|", b"s:https|", b"s:ftp|"]
BODIES7 = [b"a", b"s:http", b"xs:https", b"h:www", b"h:com|h:a"[:5], b"", b"s:https"]


def finite_grammar():
    """3 schemes x optional port x host sequences (<= 4 over {com,a,www}, not ending in two www) x <= 2 path stems over 7
    adversarial bodies = 36 936 LRUs"""
    hostseqs = []
    for n in range(0, 5):
        for hs in itertools.product(HOSTS, repeat=n):
            if n >= 2 and hs[-1] == b"h:www|" and hs[-2] == b"h:www|":
                continue
            hostseqs.append(b"".join(hs))
    pathseqs = [b""]
    for n in (1, 2):
        for bs in itertools.product(BODIES7, repeat=n):
            pathseqs.append(b"".join(b"p:" + b + b"|" for b in bs))
    for s in SCHEMES3:
        for port in (b"", b"t:8080|"):
            for h in hostseqs:
                for p in pathseqs:
                    yield s + port + h + p


@st.composite
def c17_lru(draw):
    scheme = draw(st.sampled_from([b"s:http|", b"s:https|", b"s:http|", b"s:https|", b"s:ftp|", b"s:HTTP|", b"s:httpx|"]))
    port = draw(st.sampled_from([b"", b"", b"", b"t:80|", b"t:443|"]))
    nh = draw(st.integers(0, 5))
    vocab = [b"h:com|", b"h:fr|", b"h:a|", b"h:www|", b"h:www|", b"h:wwww|", b"h:ww|", b"h:s:http|", b"h:\xff|", b"h:www2|",
             b"h:WWW|", b"h:Www|", b"h:www.|", b"h:WWW|"]
    hosts = [draw(st.sampled_from(vocab)) for _ in range(nh)]
    while len(hosts) >= 2 and hosts[-1] == b"h:www|" and hosts[-2] == b"h:www|":
        hosts.pop()
    np_ = draw(st.integers(0, 3))
    paths = []
    for _ in range(np_):
        kind = draw(st.sampled_from([b"p:", b"p:", b"q:", b"f:"]))
        r = draw(st.integers(0, 3))
        if r == 0:
            body = draw(raw_body(draw(st.sampled_from([1, 2, 5, 80]))))
        elif r == 1:
            # bodies quoting the LRU's own scheme / host texts
            body = draw(st.sampled_from([scheme[:-1], b"x" + scheme[:-1], b"".join(hosts)[:-1] if hosts else b"h:",
                                         (hosts[-1][:-1] if hosts else b"h:www"), b"h:www", b"s:http", b"s:https"]))
            body = body.replace(b"|", b"!")
        else:
            body = draw(st.sampled_from(ADVERSARIAL_BODIES))
        paths.append(kind + body + b"|")
    return scheme + port + b"".join(hosts) + b"".join(paths)


class C17(Prop):
    ID = "C17"
    NO_MACHINE = True
    TECHNIQUE = ("property-based testing (Hypothesis) + complete enumeration of a finite LRU grammar, against an independent "
                 "stem-level specification and the closure law")
    RULE = ("cases = (a) Hypothesis-drawn LRUs of the quantifier's shape (scheme, optional port, 0-5 contiguous host stems not "
            "ending in two www, 0-3 path/query/fragment stems whose bodies quote scheme and host texts) and (b) the COMPLETE "
            "finite grammar of 36 936 LRUs (3 schemes x port? x <= 4 hosts over {com,a,www} x <= 2 path stems over 7 adversarial "
            "bodies), sharded over 16 processes. For each LRU: lru_variations / Traph.expand_prefix raise nothing, list the LRU "
            "first, no entry twice, every entry differs from it only in the scheme stem and a trailing www host stem, the set "
            "equals an independent stem-level specification, and expanding ANY member yields the same set (closure). On a "
            "sample of sites, for each member of the class a fresh index receives its first page (the site prefix itself, or a page just "
            "below it) through each write entry point (add_page, add_pages, add_links, index_batch_crawl), once via the default rule "
            "and once via an anchored rule: the reported prefix sets must be the same whichever member was seen first, and every "
            "reported prefix must really carry the reported id afterwards; and with each member in turn already taken by an "
            "explicit webentity and a webentity then created from a page under another member, every expand_prefix on that index and a "
            "first page on a fresh index of the same process still yield the whole class (the expansion depends on the prefix alone). non-trivial = >= 2 "
            "host stems or a path body containing 's:http'.")
    QUICK = (0, 0)
    THOROUGH = (0, 0)
    EXHAUSTIVE_KEYS = ("finite_grammar_lrus",)
    ASSUMPTIONS = ["host stems are contiguous and follow the scheme and optional port (the quantifier's precondition)"]

    def run_probe(self, case, pop):
        if pop[1] == "variations":
            for lru in pop[2]:
                self.check_lru(case.ctx, case, lru)
        elif pop[1] == "class-on-index":
            for lru in pop[2]:
                self.check_on_index(case.ctx, case, lru)

    def _fail(self, ctx, case, clause, detail, lru, kind="variations"):
        if case is None:
            case = _FakeCase(lru, kind)
        ctx.fail(clause, detail, case)

    def check_lru(self, ctx, case, lru):
        from traph.helpers import lru_variations
        from ..core import guard
        try:
            v = guard(ctx, case if case is not None else _FakeCase(lru), "lru_variations(%r)" % lru, lru_variations, lru)
        except Exception:
            raise
        v = [bytes(x) for x in v]
        if not v or v[0] != lru:
            self._fail(ctx, case, "first-entry", "lru_variations(%r) starts with %r" % (lru, v[:1]), lru)
        if len(v) != len(set(v)):
            self._fail(ctx, case, "duplicate", "lru_variations(%r) lists an entry twice: %r" % (lru, v), lru)
        for m in v:
            if not differs_only_in_scheme_and_www(lru, m):
                self._fail(ctx, case, "changes-more", "lru_variations(%r) contains %r which differs in more than the scheme stem and a trailing www host" % (lru, m), lru)
        spec = variations(lru)
        if set(v) != set(spec):
            self._fail(ctx, case, "spec", "lru_variations(%r) = %r, stem-level specification gives %r" % (lru, v, spec), lru)
        for m in v[1:]:
            vm = guard(ctx, case if case is not None else _FakeCase(lru), "lru_variations(%r)" % m, lru_variations, m)
            if set(bytes(x) for x in vm) != set(v):
                self._fail(ctx, case, "closure", "class of %r is %r but expanding its member %r gives %r" % (lru, v, m, vm), lru)
        # the public entry point, on ONE long-lived index instance: every member in turn, as bytes and as text
        t = self._shared_traph()
        for m in v + [lru]:
            for a in (m, self._text(m)):
                if a is None:
                    continue
                e = guard(ctx, case if case is not None else _FakeCase(lru), "expand_prefix(%r)" % (a,), t.expand_prefix, a)
                e = [bytes(x) for x in e]
                if not e or e[0] != m:
                    self._fail(ctx, case, "first-entry", "expand_prefix(%r) on a long-lived index starts with %r (after expanding other members of its class)" % (a, e[:1]), lru)
                if len(e) != len(set(e)) or set(e) != set(v):
                    self._fail(ctx, case, "closure", "expand_prefix(%r) = %r, the class is %r" % (a, e, v), lru)
        sts = stems_of(lru)
        hosts = [s for s in sts if s.startswith(b"h:")]
        nt = len(hosts) >= 2 or any(b"s:http" in s for s in sts[1:])
        return nt

    _T = None

    def _shared_traph(self):
        if C17._T is None:
            from ..env import Traph
            from ..rules import RULES
            C17._T = Traph(folder=None, default_webentity_creation_rule=RULES["domain"], webentity_creation_rules={})
        return C17._T

    @staticmethod
    def _text(m):
        try:
            return m.decode("utf-8")
        except UnicodeDecodeError:
            return None

    def check_on_index(self, ctx, case, lru):
        """fresh in-memory index, default rule 'subdomain' (prefix = scheme+port+all hosts): the page seen first may be under any
        variation of the site; the created webentity must own the same prefix set"""
        from traph.helpers import lru_variations
        sts = stems_of(lru)
        i = 1
        while i < len(sts) and (sts[i].startswith(b"t:") or sts[i].startswith(b"h:")):
            i += 1
        site = b"".join(sts[:i])
        hosts = [s for s in sts[:i] if s.startswith(b"h:")]
        if len(hosts) < 2 or not sts[0][2:-1].isalpha():
            return False
        members = [bytes(x) for x in lru_variations(site)]
        # once through the default rule, once through a rule anchored on the scheme stem of every member
        anchored = {stems_of(m)[0]: "subdomain" for m in members}
        # through every write entry point, with the first page being the site prefix itself or a page just below it
        entries = (lambda l: ("page", l, False), lambda l: ("pages", [l], True), lambda l: ("pages", [l], False),
                   lambda l: ("links", [(l, l + b"p:second|")]), lambda l: ("batch", [(l, [l + b"p:second|"])], 1))
        for ci, cfg in enumerate((Config(backend="memory", default_rule="subdomain"),
                                  Config(backend="memory", default_rule="domain", rules=anchored))):
            for ei, entry in enumerate(entries):
                for below in (b"p:first|", b""):
                    seen = None
                    for m in members:
                        c = Case(self, ctx, cfg.copy(), None)
                        try:
                            out = c.idx.apply(entry(m + below))
                            if out.status != "ok":
                                self._fail(ctx, case, "index-exception", "%s under %r: %r" % (entry(b"")[0], m, out.exc), lru, "class-on-index")
                            sets = sorted(sorted(ps) for ps in out.created.values())
                            # attached as a whole: every reported prefix really carries the reported id afterwards
                            for weid, ps in out.created.items():
                                for v in ps:
                                    try:
                                        g = c.t.get_webentity_by_prefix(v)
                                    except Exception as e:
                                        g = repr(e)
                                    if g != weid:
                                        self._fail(ctx, case, "class-not-attached", "site %r, first request %s on %r: the report says webentity %r owns %r, get_webentity_by_prefix gives %r"
                                                   % (site, entry(b"")[0], m + below, weid, v, g), lru, "class-on-index")
                            try:
                                r = c.t.retrieve_webentity(m + below)
                            except Exception as e:
                                r = repr(e)
                            if out.created and r not in out.created:
                                self._fail(ctx, case, "class-not-attached", "site %r, first request %s on %r: the page resolves to %r, created %r"
                                           % (site, entry(b"")[0], m + below, r, sorted(out.created)), lru, "class-on-index")
                        finally:
                            c.abort()
                        if seen is None:
                            seen = (m, sets)
                        elif sets != seen[1]:
                            self._fail(ctx, case, "class-on-index", "site %r (%s, %s): first page under %r creates %r, first page under %r creates %r"
                                       % (site, "anchored rule" if cfg.rules else "default rule", entry(b"")[0], seen[0], seen[1], m, sets), lru, "class-on-index")
        self.check_after_taken(ctx, case, lru, site, members)
        return True

    def check_after_taken(self, ctx, case, lru, site, members):
        """the expansion is a function of the prefix alone: one member of the class already belongs to a webentity, a page under
        another member then creates a webentity from the free members; afterwards - on that index and on a fresh one in the same
        process - expanding any member still gives the whole class, and a first page creates the whole class"""
        if len(members) < 2:
            return
        cfg = Config(backend="memory", default_rule="subdomain")
        whole = sorted(members)
        for j, taken in enumerate(members):
            first = members[(j + 1) % len(members)]
            c = Case(self, ctx, cfg.copy(), None)
            try:
                out = c.idx.apply(("create", [taken]))
                if out.status != "ok":
                    self._fail(ctx, case, "index-exception", "create_webentity([%r]) on a fresh index: %r" % (taken, out.exc), lru, "class-on-index")
                out = c.idx.apply(("page", first + b"p:first|", False))
                if out.status != "ok":
                    self._fail(ctx, case, "index-exception", "add_page under %r after %r was taken: %r" % (first, taken, out.exc), lru, "class-on-index")
                got = sorted(sorted(ps) for ps in out.created.values())
                want = [sorted(m for m in members if m != taken)]
                # (what exactly is created next to a taken member is C06's business; here: nothing outside the free members)
                if any(not set(ps) <= set(want[0]) for ps in got):
                    self._fail(ctx, case, "class-on-index", "site %r: %r already belongs to a webentity, a first page under %r creates %r, the free members are %r"
                               % (site, taken, first, got, want), lru, "class-on-index")
                for m in members:
                    try:
                        e = sorted(bytes(x) for x in c.t.expand_prefix(m))
                    except Exception as ex:
                        e = repr(ex)
                    if e != whole:
                        self._fail(ctx, case, "closure", "after %r was taken and a webentity created from a page under %r, expand_prefix(%r) = %r, the class is %r"
                                   % (taken, first, m, e, whole), lru, "class-on-index")
            finally:
                c.abort()
            c = Case(self, ctx, cfg.copy(), None)
            try:
                out = c.idx.apply(("page", first + b"p:first|", False))
                got = sorted(sorted(ps) for ps in out.created.values())
                if out.status != "ok" or got != [whole]:
                    self._fail(ctx, case, "class-on-index", "site %r: on a fresh index (after another index of this process had %r taken) a first page under %r creates %r (%r), the class is %r"
                               % (site, taken, first, got, out.exc, whole), lru, "class-on-index")
            finally:
                c.abort()

    def extra_checks(self, ctx, tier, seed, shard, nshards):
        n_hyp = 400 if tier == "quick" else 6000

        def one(lru):
            nt = self.check_lru(ctx, None, lru)
            ctx.record_case([("probe", "variations", [lru])], ["hypothesis-lru"], nt, sample=repr(lru))
        run_given(seed * 1000 + shard, n_hyp, c17_lru(), one)

        n_idx = 40 if tier == "quick" else 600

        def two(lru):
            if self.check_on_index(ctx, None, lru):
                ctx.extra["class_on_index_sites"] += 1
        run_given(seed * 1000 + 500 + shard, n_idx, c17_lru(), two)

        for k, lru in enumerate(finite_grammar()):
            if k % nshards != shard:
                continue
            nt = self.check_lru(ctx, None, lru)
            ctx.record_case([("probe", "variations", [lru])], ["finite-grammar-lru"], nt, sample=repr(lru))
            ctx.extra["finite_grammar_lrus"] += 1
            if k % (97 if tier == "quick" else 7) == 0:
                if self.check_on_index(ctx, None, lru):
                    ctx.extra["class_on_index_sites"] += 1


class _FakeCase(object):
    """minimal stand-in so that a violation found outside a history still carries a replayable op list"""

    def __init__(self, lru, kind="variations"):
        self.ops = [("probe", kind, [lru])]
        self.failed = False

    def config_json(self):
        return Config().to_json()


PROP = C17()
