"""C16 Cooperative interleaving of iterator requests is safe."""
from collections import Counter

from hypothesis import strategies as st

from ..core import Prop, Case, Violation, HarnessError, run_given, replay, _innermost_repo_frame
from ..ops import Config, Outcome, op_to_json, op_from_json
from ..codec import B
from ..lru import lru_list, vocab as vocab_strategy
from ..gen import config_strategy, op_strategy, anchor_strategy
from ..rules import ANCHORED_RULE_NAMES
from ..env import TraphException
from .. import observe as ob
from .. import fsck
from .. import sched
from .c07 import numeric_graph

sched.every_iteration_yields()

QUERY_KINDS = ["q-pages", "q-pages", "q-crawled", "q-pagelinks", "q-pagelinks", "q-children", "q-mostlinked", "q-outlinks",
               "q-inlinks", "q-network", "q-network", "q-network-slow"]


# ------------------------------------------------------------------------------------------------------
# atomic reference answers (the harness holds the schedule, so a plain call is atomic)

def atomic_items(t, req):
    """{key: value} of the items that qualify for query `req` right now"""
    kind = req[0]
    if kind == "q-pages":
        return {bytes(g["lru"]): bool(g["crawled"]) for g in t.get_webentity_pages(req[1], list(req[2]))}
    if kind == "q-crawled":
        return {bytes(g["lru"]): True for g in t.get_webentity_crawled_pages(req[1], list(req[2]))}
    if kind == "q-pagelinks":
        f = req[3]
        return {(bytes(a), bytes(b)): w for a, b, w in t.get_webentity_pagelinks(
            req[1], list(req[2]), include_inbound=f[0], include_internal=f[1], include_outbound=f[2])}
    if kind == "q-children":
        return {w: True for w in t.get_webentity_child_webentities(req[1], list(req[2]))}
    if kind == "q-mostlinked":
        return {bytes(g["lru"]): g["indegree"] for g in t.get_webentity_most_linked_pages(req[1], list(req[2]), pages_count=1000)}
    if kind == "q-outlinks":
        return {w: True for w in t.get_webentity_outlinks(req[1], list(req[2]))}
    if kind == "q-inlinks":
        return {w: True for w in t.get_webentity_inlinks(req[1], list(req[2]))}
    raise ValueError(kind)


def answer_items(req, result):
    kind = req[0]
    if kind == "q-pages":
        return [(bytes(g["lru"]), bool(g["crawled"])) for g in result]
    if kind == "q-crawled":
        return [(bytes(g["lru"]), True) for g in result]
    if kind == "q-pagelinks":
        return [((bytes(a), bytes(b)), w) for a, b, w in result]
    if kind in ("q-children", "q-outlinks", "q-inlinks"):
        return [(w, True) for w in result]
    if kind == "q-mostlinked":
        return [(bytes(g["lru"]), g["indegree"]) for g in result]
    raise ValueError(kind)


def atomic_network_state(case, out):
    """page-level state behind the network queries right now: resolution and mark of every page, and the weight of every
    page link as stored on the side the query reads (outbound lists for out=True, inbound lists for out=False; the two sides
    legitimately differ in the middle of a batch).  The link lists are read from the raw bytes by tv/fsck."""
    t = case.t
    res, mark = {}, {}
    for n, l in t.pages_iter():
        l = bytes(l)
        mark[l] = bool(n.is_crawled())
        try:
            res[l] = t.retrieve_webentity(l)
        except TraphException:
            res[l] = None
    a, b = case.idx.raw()
    errs, info = fsck.check(a, b)
    oc, ic = fsck.link_counter(info)
    links = dict(oc if out else ic)
    return res, mark, links


class C16(Prop):
    ID = "C16"
    TECHNIQUE = ("schedule exploration: the harness owns every context switch of the library's generator requests; "
                 "Hypothesis-drawn schedules plus exhaustive enumeration (stateless re-execution DFS) of all interleavings of "
                 "two requests; sequential ledger and item-level must/may oracles")
    RULE = ("cases = one case per executed schedule. should_yield is forced to True so every loop iteration with a yield site is "
            "a yield point. After a Hypothesis-drawn warm-up history, 2-3 generator requests (index_batch_crawl_iter, "
            "add_webentity_creation_rule_iter, page / crawled-page / pagelink / child / most-linked / cited / citing / network "
            "queries) are advanced in a drawn order of 'advance request i' choices; in addition, for drawn two-request scenarios "
            "(thorough: also three-request) ALL interleavings are enumerated by re-execution (bounded per scenario, see schedules_enumerated / "
            "scenarios_enumerated_completely). Oracle: (1) no request raises; (2) final pages, crawled marks, link Counter and "
            "count_links equal the batches applied one after another in submission order; (3) in/out symmetry (all C03 clauses) "
            "and raw-bytes fsck on the final state; (4) each query's answer contains every item present in the atomic reference "
            "answer at EVERY scheduler step of its lifetime and no item present at none; network weights and tallies lie between "
            "the per-item lower and upper sums. non-trivial = >= 1 switch between two unfinished requests AND (two writers "
            "share an LRU or the item set of a query changed during its lifetime).")
    MODES = ("url", "url", "mixed")
    LONG_BIAS = 0.1
    WEIGHTS = {"page": 4, "pages": 2, "links": 3, "batch": 3, "again": 0, "create": 2, "delete": 1, "addprefix": 2,
               "rmprefix": 0, "move": 0, "rule": 1, "unrule": 0, "reopen": 0}
    QUICK = (25, 8)
    THOROUGH = (220, 12)
    MINIMIZE = True
    LEVEL_TEXT = ("Schedule exploration with a harness-owned scheduler: generated schedules over generated scenarios, plus "
                  "complete enumeration of all interleavings for small two-request scenarios; every executed schedule is checked "
                  "against the sequential-ledger and item-level must/may oracles. Bounded, finds counterexamples.")
    LEVEL_NOTE = ("The library's requests are cooperative generators, so the harness decides every context switch; "
                  "TraphIteratorState.should_yield is replaced by 'always' inside the harness process (no source hook). Atomic "
                  "calls of the same API are the reference for query consistency (their own correctness is C05/C07/C08/C13/C20).")
    ASSUMPTIONS = ["every loop iteration with a yield site is a yield point (should_yield forced to True)",
                   "reference item sets come from atomic calls of the same queries between scheduler steps",
                   "known finding K4: a query interleaved with webentity creation can combine membership/resolution and page "
                   "attributes taken at different moments; network cells are tolerated only within the relaxed bound 'each page "
                   "resolves as in SOME snapshot', other queries only when a concurrent request of the schedule created a "
                   "webentity and (page-keyed answers) the page was a member at some moment"]

    # -- drawing ------------------------------------------------------------------------------------
    def draw_requests(self, case, data, n=None, kinds=None):
        led = case.led
        known = sorted(led.closure)
        wes = led.webentities()
        if n is None:
            n = data.draw(st.sampled_from([2, 2, 3]))
        pool = data.draw(lru_list(case.vocab, known, 2, 5))
        pgs = sorted(led.pages)
        if pgs:
            pool += data.draw(st.lists(st.sampled_from(pgs), min_size=0, max_size=3))
        reqs = []
        for j in range(n):
            if kinds is not None:
                kind = kinds[j]
            elif j == 0:
                kind = "batch"
            else:
                kind = data.draw(st.sampled_from(["batch", "batch", "rule"] + QUERY_KINDS))
            if kind == "rule" and case.vocab.mode == "raw":
                kind = "batch"
            if kind.startswith("q-") and kind not in ("q-network", "q-network-slow") and not wes:
                kind = "q-network"
            if kind == "batch":
                rows = []
                seen = set()
                for _ in range(data.draw(st.integers(1, 3))):
                    s = data.draw(st.sampled_from(pool))
                    if s in seen:
                        continue
                    seen.add(s)
                    rows.append((s, [data.draw(st.sampled_from(pool)) for _ in range(data.draw(st.integers(0, 4)))]))
                reqs.append(("batch", rows))
            elif kind == "rule":
                reqs.append(("rule", data.draw(anchor_strategy(case.vocab, known)), data.draw(st.sampled_from(ANCHORED_RULE_NAMES))))
            elif kind in ("q-network", "q-network-slow"):
                reqs.append((kind, data.draw(st.booleans()), data.draw(st.booleans())))
            else:
                w = data.draw(st.sampled_from(sorted(wes)))
                ps = list(wes[w])
                if kind == "q-pagelinks":
                    f = data.draw(st.sampled_from([[False, True, False], [False, True, True], [True, True, True], [True, False, False],
                                                   [False, False, True]]))
                    reqs.append((kind, w, ps, f))
                else:
                    reqs.append((kind, w, ps))
        return reqs

    def draw_probes(self, case, data):
        if data.draw(st.integers(0, 2)) != 0:
            return []
        reqs = self.draw_requests(case, data)
        choices = data.draw(st.lists(st.integers(0, 2), min_size=0, max_size=40))
        return [("probe", "sched", reqs, choices, data.draw(st.booleans()))]

    # -- one schedule -------------------------------------------------------------------------------
    def run_probe(self, case, pop):
        if pop[1] == "sched":
            self.run_schedule(case, [tuple(r) for r in pop[2]], list(pop[3]), eager=bool(pop[4]) if len(pop) > 4 else False)

    def run_schedule(self, case, reqs, choices, default="round-robin", eager=False):
        ctx, t, led = case.ctx, case.t, case.led
        # requests naming webentities that no longer exist (reduced replay) are dropped
        wes = led.webentities()
        reqs = [r for r in reqs if not (r[0].startswith("q-") and r[0] not in ("q-network", "q-network-slow")
                                         and sorted(wes.get(r[1], [])) != sorted(B(p) for p in r[2]))]
        if not reqs:
            return None
        pre_marks = dict(ob.pages(case))
        queries = [i for i, r in enumerate(reqs) if r[0].startswith("q-")]
        snaps = {i: [] for i in queries}
        dirty = {i: True for i in queries}

        members = {i: set() for i in queries}

        def take(i):
            r = reqs[i]
            if r[0] in ("q-network", "q-network-slow"):
                snaps[i].append(atomic_network_state(case, r[1]))
            else:
                snaps[i].append(atomic_items(t, r))
                if r[0] in ("q-pages", "q-crawled", "q-mostlinked"):
                    members[i] |= set(bytes(g["lru"]) for g in t.get_webentity_pages(r[1], list(r[2])))
            dirty[i] = False

        def on_step(when, j, run):
            if when == "before-start":
                if j in snaps:
                    take(j)
                return
            if reqs[j][0] in sched.WRITERS:
                for i in queries:
                    dirty[i] = True
            for i in queries:
                if run.started[i] and dirty[i] and (not run.done[i] or i == j):
                    take(i)

        run = sched.Run(t, reqs, choices, on_step=on_step, default=default, eager=eager)
        try:
            run.run()
        except (Violation, HarnessError):
            raise
        except Exception as e:
            if type(e).__module__.startswith("hypothesis"):
                raise
            fr = _innermost_repo_frame(e.__traceback__)
            if fr is None:
                raise HarnessError("scheduler: %r" % (e,))
            # which request failed?
            ctx.fail("request-fails", "a request failed under the schedule %r: %s in %s:%s -- %r (requests: %r)"
                     % ([d[1] for d in run.decisions][:40], type(e).__name__, fr[0], fr[1], e, [r[0] for r in reqs]), case)
        # (2) sequential ledger: writers in submission order
        for i, r in enumerate(reqs):
            if r[0] == "batch":
                rep = run.results[i]
                out = Outcome("ok", new_pages=rep.nb_created_pages,
                              created={k: [bytes(p) for p in v] for k, v in rep.created_webentities.items()})
                led.apply(("batch", r[1], 1), out)
                case.idx.rules = dict(case.idx.rules)
            elif r[0] == "rule":
                rep = run.results[i]
                out = Outcome("ok", created={k: [bytes(p) for p in v] for k, v in rep.created_webentities.items()})
                led.apply(("rule", r[1], r[2]), out)
                case.idx.rules[B(r[1])] = r[2]
        got = ob.pages(case)
        lr = [l for l, _ in got]
        if len(lr) != len(set(lr)):
            ctx.fail("final-pages", "a page is enumerated twice after the schedule", case)
        gs = dict(got)
        if set(gs) != set(led.pages):
            ctx.fail("final-pages", "after the schedule: pages missing %r, extra %r (sequential application of the batches is the reference)"
                     % (sorted(set(led.pages) - set(gs))[:3], sorted(set(gs) - set(led.pages))[:3]), case)
        want_marks = dict(pre_marks)
        for r in reqs:
            if r[0] == "batch":
                for s, ts in r[1]:
                    want_marks[B(s)] = True
                    for x in ts:
                        want_marks.setdefault(B(x), False)
        for l, c in gs.items():
            if c != want_marks.get(l, False):
                ctx.fail("final-crawled-marks", "after the schedule page %r is reported crawled=%r, sequential application gives %r"
                         % (l, c, want_marks.get(l, False)), case)
        from .c03 import PROP as C03P
        C03P.check_state(case, full=False)      # link Counter, count_links, symmetry, raw lists (fails under this property's id)
        a, b = case.idx.raw()
        errs, info = fsck.check(a, b)
        if errs:
            ctx.fail("fsck:" + errs[0][0], "; ".join(e[1] for e in errs[:3]), case)
        # (4) queries
        changed = False
        for i in queries:
            r = reqs[i]
            if r[0] in ("q-network", "q-network-slow"):
                ch = self.check_network(case, r, run.results[i], snaps[i])
            else:
                created = any(reqs[j][0] in sched.WRITERS and getattr(run.results[j], "created_webentities", None)
                              for j in range(len(reqs)))
                ch = self.check_items(case, r, run.results[i], snaps[i], created_during=created, members_any=members[i])
            changed = changed or ch
        # classification
        writers = [set(sched.request_lrus(r)) for r in reqs if r[0] in sched.WRITERS]
        share = any(writers[x] & writers[y] for x in range(len(writers)) for y in range(x + 1, len(writers)))
        nt = run.switches_between_unfinished >= 1 and (share or changed)
        flags = ["schedule"]
        if run.switches_between_unfinished:
            flags.append("switch-between-unfinished")
        if share:
            flags.append("writers-share-lru")
        if changed:
            flags.append("query-items-changed-during-lifetime")
        for r in reqs:
            flags.append("req:" + r[0])
        ctx.record_case(list(case.ops) + [("decisions", [d[1] for d in run.decisions])], flags, nt,
                        sample={"requests": [r[0] for r in reqs], "decisions": [d[1] for d in run.decisions][:30],
                                "steps_per_request": run.steps})
        return run

    def check_items(self, case, req, result, snaps, created_during=False, members_any=frozenset()):
        ctx = case.ctx
        ans = answer_items(req, result)
        keys = [k for k, _ in ans]
        must_items = set(snaps[0].items())
        may_items = set()
        must_keys = set(snaps[0])
        for s in snaps:
            must_items &= set(s.items())
            may_items |= set(s.items())
            must_keys &= set(s)
        aset = set(ans)
        miss = [x for x in must_items if x not in aset]
        if miss:
            ctx.fail("query-misses-item", "%s answer lacks %r which qualified at every one of the %d moments of its execution"
                     % (req[0], sorted(miss, key=repr)[:3], len(snaps)), case)
        missk = [k for k in must_keys if k not in set(keys)]
        if missk:
            ctx.fail("query-misses-item", "%s answer has no entry for %r which qualified (with changing figures) throughout its execution"
                     % (req[0], sorted(missk, key=repr)[:3]), case)
        extra = [x for x in aset if x not in may_items]
        if extra:
            # known finding K4 (no snapshot isolation): when another request creates a webentity above existing pages while the
            # query runs, the traversal decides membership at one moment (when it stacks the node) and reads the page's mark,
            # links or resolution at a later one.  Tolerated ONLY if a webentity was created by a concurrent request of this
            # schedule AND, for page-keyed answers, the page was a member of the webentity at some moment.
            page_keyed = req[0] in ("q-pages", "q-crawled", "q-mostlinked")
            ok_keys = members_any if page_keyed else None
            if created_during and all((not page_keyed) or (k in ok_keys) for k, _ in extra) \
                    and ctx.tolerate("K4", "%s: %r" % (req[0], sorted(extra, key=repr)[:2])):
                return True
            ctx.fail("query-invents-item", "%s answer contains %r which qualified at none of the %d moments of its execution"
                     % (req[0], sorted(extra, key=repr)[:3], len(snaps)), case)
        return must_items != may_items

    def check_network(self, case, req, result, snaps):
        ctx = case.ctx
        out, auto = req[1], req[2]
        g = {a: dict(d) for a, d in result.items()}
        ng = numeric_graph(g)
        pairs = set()
        for res, mark, links in snaps:
            pairs |= set(links)
        lower, upper, relaxed = Counter(), Counter(), Counter()
        changed = False
        for (s, t_) in pairs:
            cells = []
            ws = []
            for res, mark, links in snaps:
                w = links.get((s, t_), 0)
                a, b = res.get(s), res.get(t_)
                ws.append(w)
                if w and a and b and (a != b or auto):
                    cells.append(((a, b) if out else (b, a), w))
                else:
                    cells.append((None, 0))
            for cell in set(c for c, _ in cells if c is not None):
                vals = [w if c == cell else 0 for c, w in cells]
                lower[cell] += min(vals)
                upper[cell] += max(vals)
                if min(vals) != max(vals):
                    changed = True
            ra = set(res.get(s) for res, _, _ in snaps) - {None}
            rb = set(res.get(t_) for res, _, _ in snaps) - {None}
            for a in ra:
                for b in rb:
                    if a != b or auto:
                        relaxed[(a, b) if out else (b, a)] += max(ws)
        cells = set(lower) | set(upper) | set((a, b) for a, d in ng.items() for b in d)
        for cell in cells:
            v = ng.get(cell[0], {}).get(cell[1], 0)
            if v < lower[cell]:
                ctx.fail("network-below-must", "%s(out=%r, include_auto=%r): weight %r -> %r is %r, the links that resolved there at every moment sum to %r"
                         % (req[0], out, auto, cell[0], cell[1], v, lower[cell]), case)
            if v > upper[cell]:
                if v <= relaxed[cell] and ctx.tolerate("K4", "cell %r: %r > %r" % (cell, v, upper[cell])):
                    continue
                ctx.fail("network-above-may", "%s(out=%r, include_auto=%r): weight %r -> %r is %r, the links that resolved there at some moment sum to %r (relaxed bound %r)"
                         % (req[0], out, auto, cell[0], cell[1], v, upper[cell], relaxed[cell]), case)
        if req[0] == "q-network":
            pages = set()
            for res, mark, links in snaps:
                pages |= set(res)
            tl, tu = Counter(), Counter()
            for p in pages:
                states = set((res.get(p), mark.get(p)) for res, mark, _ in snaps)
                for (a, c) in states:
                    if a is None or c is None:
                        continue
                    key = (a, "pages_crawled" if c else "pages_uncrawled")
                    tu[key] += 1
                    if len(states) == 1:
                        tl[key] += 1
                if len(states) > 1:
                    changed = True
            keys = set(tl) | set(tu) | set((a, k) for a, d in g.items() for k in d if isinstance(k, str))
            for key in keys:
                v = g.get(key[0], {}).get(key[1], 0)
                if v < tl[key] or v > tu[key]:
                    ctx.fail("network-tally", "get_webentities_links: %s of webentity %r is %r, pages in that state throughout: %d, at some moment: %d"
                             % (key[1], key[0], v, tl[key], tu[key]), case)
        return changed

    def nontrivial(self, case):
        return False        # schedules are recorded one by one inside run_schedule

    def known_repros(self):
        def k4(ctx):
            """two pages S -> T under one webentity; a path1 rule installed on the domain creates one webentity over S's
            directory and then one over T's; a network query advanced between the two creations reports a link between S's OLD
            webentity and T's NEW one, a pair that existed at no moment"""
            S = b"s:http|h:com|h:a|p:x|p:s|"
            T = b"s:http|h:com|h:a|p:y|p:t|"
            case = Case(self, ctx, Config(backend="memory", default_rule="domain"), None)
            try:
                case.idx.apply(("links", [(S, T)]))
                w1 = case.t.retrieve_webentity(S)
                reqs = [("rule", b"s:http|h:com|h:a|", "path1"), ("q-network", True, True)]
                run = sched.Run(case.t, reqs, [0, 0, 1], default="first")
                run.run()
                g = numeric_graph({a: dict(d) for a, d in run.results[1].items()})
                w2, w3 = case.t.retrieve_webentity(S), case.t.retrieve_webentity(T)
                # moments: (w1,w1) -> (w2,w1) -> (w2,w3); the answer pairs w1 with w3
                return w1 in g and w3 in g[w1] and w3 != w1 and w2 != w1
            finally:
                case.abort()
        return {"K4": k4}

    # -- exhaustive enumeration of all interleavings of two requests ---------------------------------------------
    def extra_checks(self, ctx, tier, seed, shard, nshards):
        n_scen = 5 if tier == "quick" else 18
        cap = 140 if tier == "quick" else 924

        def scenario(data):
            v = data.draw(vocab_strategy(modes=self.MODES, long_bias=0.05))
            cfg = data.draw(config_strategy(v))
            case = Case(self, ctx, cfg, v)
            try:
                for _ in range(data.draw(st.integers(3, 7))):
                    case.step(data.draw(op_strategy(v, case.led, self.weights(), cfg.backend, case.ops)))
                # at least one link-bearing request, so that link-walking queries take more than one step
                lw = {"links": 1, "batch": 1}
                case.step(data.draw(op_strategy(v, case.led, lw, cfg.backend, case.ops)))
                two = [("batch", "batch"), ("batch", "rule"), ("batch", "q-network"), ("batch", "q-network"), ("batch", "q-network"),
                       ("batch", "q-pages"),
                       ("batch", "q-pagelinks"), ("rule", "q-network"), ("batch", "q-mostlinked"), ("rule", "q-children"),
                       ("rule", "q-pages"), ("batch", "q-network-slow"), ("batch", "q-inlinks"),
                       ("q-outlinks", "q-inlinks"), ("q-outlinks", "q-outlinks"), ("q-pages", "q-crawled"),
                       ("q-pagelinks", "q-mostlinked"), ("q-inlinks", "q-inlinks")]
                three = [("batch", "batch", "q-network"), ("batch", "rule", "q-pages"), ("batch", "batch", "batch"),
                         ("batch", "rule", "q-network")]
                # thorough: one scenario in four has three requests (usually truncated at the cap; counted as such)
                pool = two if (tier == "quick" or data.draw(st.integers(0, 3)) != 0) else three
                kinds = data.draw(st.sampled_from(pool))
                reqs = self.draw_requests(case, data, n=len(kinds), kinds=list(kinds))
                warm = [op_to_json(o) for o in case.ops]
                cfgj = cfg.to_json()
            finally:
                case.abort()
            self.enumerate_all(ctx, cfgj, warm, reqs, cap, eager=data.draw(st.booleans()))

        run_given(seed * 1000 + 300 + shard, n_scen, st.data(), scenario)
        if shard == 6 % nshards:
            self.fixed_scenarios(ctx, cap)

    def fixed_scenarios(self, ctx, cap):
        """a few fixed two-request scenarios, every interleaving: a batch that creates a NEW target page in a part of the trie
        the query's traversal may already have left, cited by a source the traversal reaches late (and the mirror image)"""
        cfgj = Config(backend="memory", default_rule="domain").to_json()
        a1, a2 = b"s:http|h:com|h:a|p:1|", b"s:http|h:com|h:a|p:2|"
        z1, z2 = b"s:http|h:com|h:z|p:8|", b"s:http|h:com|h:z|p:9|"
        warm = [op_to_json(("links", [(a1, z1), (z2, a2), (a2, a1)]))]
        new_early, new_late = b"s:http|h:com|h:a|p:0|", b"s:http|h:com|h:z|p:99|"
        for batch in ([(z2, [new_early, a1])], [(a1, [new_late])], [(z1, [new_early]), (a2, [new_late, z1])]):
            for q in (("q-network", True, True), ("q-network", False, False), ("q-network-slow", True, True)):
                self.enumerate_all(ctx, cfgj, warm, [("batch", batch), q], cap, eager=False)
                ctx.extra["fixed_scenarios"] += 1

    def enumerate_all(self, ctx, cfgj, warm, reqs, cap, eager=False):
        """stateless DFS over choice prefixes; every maximal schedule of the two requests is executed from a fresh index"""
        stack = [[]]
        count = 0
        complete = True
        while stack:
            prefix = stack.pop()
            if count >= cap:
                complete = False
                break
            case = Case(self, ctx, Config.from_json(cfgj), None)
            try:
                for j in warm:
                    case.step(op_from_json(j))
                case.ops.append(("probe", "sched", reqs, prefix + [0] * 200, eager))
                run = self.run_schedule(case, reqs, prefix, default="first", eager=eager)
            finally:
                case.abort()
            count += 1
            ctx.extra["schedules_enumerated"] += 1
            if run is None:
                break
            for d in range(len(prefix), len(run.decisions)):
                alive, pos = run.decisions[d]
                for alt in range(len(alive)):
                    if alt != pos:
                        stack.append([x[1] for x in run.decisions[:d]] + [alt])
        if complete:
            ctx.extra["scenarios_enumerated_completely"] += 1
        else:
            ctx.extra["scenarios_truncated_at_cap"] += 1
            if len(reqs) == 2:
                # the cap cut the enumeration short: add the family "k steps of one request, the other to completion, the rest"
                for first in (0, 1):
                    for k in range(0, 16):
                        choices = [first] * k + [1 - first] * 200
                        case = Case(self, ctx, Config.from_json(cfgj), None)
                        try:
                            for j in warm:
                                case.step(op_from_json(j))
                            case.ops.append(("probe", "sched", reqs, choices, eager))
                            self.run_schedule(case, reqs, choices, default="first", eager=eager)
                            ctx.extra["split_schedules"] += 1
                        finally:
                            case.abort()


PROP = C16()
