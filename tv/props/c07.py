"""C07 Webentity network equals the page links aggregated through resolution."""
from collections import Counter

from ..core import Prop
from .. import observe as ob


def numeric_graph(g):
    """{A: {B: w}} keeping only integer keys (the fast variant also stores 'pages_*' tallies) and non-empty rows"""
    out = {}
    for a, d in g.items():
        row = {b: w for b, w in d.items() if not isinstance(b, str) and w}
        if row:
            out[a] = row
    return out


def expected_network(links, R, out, include_auto):
    exp = {}
    for s, t, w in links:
        a, b = R.get(s), R.get(t)
        if not a or not b:
            continue
        if a == b and not include_auto:
            continue
        if not out:
            a, b = b, a
        exp.setdefault(a, {})
        exp[a][b] = exp[a].get(b, 0) + w
    return exp


class C07(Prop):
    ID = "C07"
    RULE = ("cases = Hypothesis histories with links across >= 2 webentities and pages without webentity (raw LRUs, lone-host "
            "LRUs on which the default rule fails); after EVERY step, relationally: every page-level link of get_page_links is "
            "pushed through retrieve_webentity and summed; get_webentities_links must equal that for out in {True,False} x "
            "include_auto in {True,False}, the inbound network must be the transpose of the outbound one, the memory-light "
            "variant must return the same weights, and the pages_crawled/pages_uncrawled tallies must equal the pages that "
            "resolve to each webentity. non-trivial = >= 1 inter-webentity link, >= 1 intra-webentity link and >= 1 link "
            "touching a page without webentity.")
    MODES = ("url", "url", "mixed")
    LONG_BIAS = 0.2
    BACKENDS = ("file", "file", "memory")
    WEIGHTS = {"page": 2, "pages": 2, "links": 6, "batch": 5, "again": 1, "create": 3, "delete": 1, "addprefix": 2,
               "rmprefix": 1, "move": 1, "rule": 1, "unrule": 1, "reopen": 1, "clear": 1}
    QUICK = (40, 20)
    THOROUGH = (200, 40)
    ASSUMPTIONS = ["relational oracle: get_page_links + retrieve_webentity + pages_iter of the same index are the reference "
                   "(their own correctness is C03 / C04 / C01)"]

    def after_op(self, case, op, out, pre):
        ctx, t = case.ctx, case.t
        pg, R, _ = ob.resolution_of_pages(case)
        links = ob.all_page_links(case, sorted(pg))
        for s, d, w in links:
            a, b = R.get(s), R.get(d)
            if a and b and a != b:
                case.flag("inter-webentity-link")
            if a and b and a == b:
                case.flag("intra-webentity-link")
            if not a or not b:
                case.flag("link-touching-page-without-webentity")
        graphs = {}
        for o in (True, False):
            for auto in (True, False):
                exp = expected_network(links, R, o, auto)
                g = case.call("get_webentities_links", t.get_webentities_links, out=o, include_auto=auto)
                graphs[(o, auto)] = g
                ng = numeric_graph(g)
                if ng != exp:
                    ctx.fail("network", "get_webentities_links(out=%r, include_auto=%r) = %r, page links through resolution give %r"
                             % (o, auto, ng, exp), case)
                gs = case.call("get_webentities_links_slow", t.get_webentities_links_slow, out=o, include_auto=auto)
                if numeric_graph(gs) != ng:
                    ctx.fail("slow-variant", "get_webentities_links_slow(out=%r, include_auto=%r) = %r, fast variant %r"
                             % (o, auto, numeric_graph(gs), ng), case)
                # tallies
                for w in set(x for x in R.values() if x) | set(g):
                    row = g.get(w, {})
                    ec = sum(1 for p, c in pg.items() if R[p] == w and c)
                    eu = sum(1 for p, c in pg.items() if R[p] == w and not c)
                    if row.get("pages_crawled", 0) != ec or row.get("pages_uncrawled", 0) != eu:
                        ctx.fail("tallies", "webentity %r: pages_crawled=%r pages_uncrawled=%r, pages resolving to it: %d crawled, %d uncrawled"
                                 % (w, row.get("pages_crawled", 0), row.get("pages_uncrawled", 0), ec, eu), case)
        for auto in (True, False):
            o, i = numeric_graph(graphs[(True, auto)]), numeric_graph(graphs[(False, auto)])
            tr = {}
            for a, d in o.items():
                for b, w in d.items():
                    tr.setdefault(b, {})[a] = w
            if tr != i:
                ctx.fail("transpose", "inbound network is not the transpose of the outbound one (include_auto=%r)" % auto, case)
        # the dedicated aliases
        if numeric_graph(case.call("get_webentities_inlinks", t.get_webentities_inlinks)) != numeric_graph(graphs[(False, False)]):
            ctx.fail("alias", "get_webentities_inlinks() differs from get_webentities_links(out=False)", case)
        if numeric_graph(case.call("get_webentities_outlinks", t.get_webentities_outlinks)) != numeric_graph(graphs[(True, False)]):
            ctx.fail("alias", "get_webentities_outlinks() differs from get_webentities_links(out=True)", case)

    def nontrivial(self, case):
        f = case.flags
        return ("inter-webentity-link" in f and "intra-webentity-link" in f
                and "link-touching-page-without-webentity" in f)


    # scale probe (tv/scale.py): 320 webentities (ids beyond 256), 1280+ pages, judged once by this property's oracle
    def extra_checks(self, ctx, tier, seed, shard, nshards):
        if shard != 2 % nshards:
            return
        from ..scale import build
        case = build(self, ctx, 720 if tier == "quick" else 1100)      # well beyond 4096 trie nodes
        try:
            self.after_op(case, ("links", []), None, None)
            ctx.extra["scale_probe_pages"] += len(case.led.pages)
            ctx.extra["scale_probe_webentities"] += len(case.led.webentities())
        finally:
            case.abort()

PROP = C07()
