"""C04 Webentity resolution is longest-prefix match over the net prefix edits."""
from hypothesis import strategies as st

from ..core import Prop
from ..codec import B
from ..spec import longest_prefix, prefixes_of
from .. import observe as ob
from ..env import TraphException
from ..lru import lru_from
from .c02 import near_miss


def check_prefix_enumeration(case, clause_prefix=""):
    """webentity_prefix_iter must list exactly the ledger's prefix map, each prefix once"""
    ctx, led = case.ctx, case.led
    ents = ob.prefix_entries(case)
    ps = [p for p, _ in ents]
    if len(ps) != len(set(ps)):
        ctx.fail(clause_prefix + "prefix-enumeration-duplicate", "webentity_prefix_iter lists a prefix twice", case)
    got = dict(ents)
    if got != led.prefix_map:
        miss = sorted((p, w) for p, w in led.prefix_map.items() if got.get(p) != w)
        extra = sorted((p, w) for p, w in got.items() if led.prefix_map.get(p) != w)
        ctx.fail(clause_prefix + "prefix-enumeration", "webentity_prefix_iter differs from the net edits: expected-but-not-listed %r, listed-but-not-expected %r"
                 % (miss[:3], extra[:3]), case)
    return got


class C04(Prop):
    ID = "C04"
    RULE = ("cases = Hypothesis histories heavy in create/delete/add-prefix/remove-prefix/move edits (plus automatic creations, "
            "followed through the write reports) over URL stems with nested and sibling prefixes; after EVERY step the prefix "
            "enumeration must equal the ledger's net prefix map, every LRU of the closure plus drawn absent / partially indexed "
            "LRUs (diverging after k stems, one byte off inside a sibling set, extensions) must resolve (retrieve_webentity, "
            "retrieve_prefix) to the longest attached stem-prefix or raise TraphException iff none, get_webentity_by_prefix "
            "must agree per prefix, and attaching an attached prefix must be refused leaving the map unchanged. "
            "non-trivial = >= 2 explicit edits of different kinds, nested prefixes present, >= 1 absent/partial query.")
    MODES = ("url", "url", "mixed")
    LONG_BIAS = 0.3
    BACKENDS = ("file", "file", "memory")
    WEIGHTS = {"page": 3, "pages": 1, "links": 1, "batch": 1, "again": 0, "create": 5, "delete": 3, "addprefix": 4,
               "rmprefix": 3, "move": 3, "rule": 1, "unrule": 1, "reopen": 1, "clear": 1, "recreate": 1}
    QUICK = (40, 20)
    THOROUGH = (200, 40)
    TECHNIQUE = ("stateful property-based testing (Hypothesis) against a ledger oracle; thorough tier adds coverage-guided "
                 "fuzzing of histories (atheris/libFuzzer driving Hypothesis' fuzz_one_input)")
    FUZZ_RUNS = 400
    ASSUMPTIONS = ["prefix map = explicit edits that the index accepted + creations listed in write reports"]

    def before_op(self, case, op):
        if op[0] in ("create", "addprefix"):
            return {"refuse": case.led.expect_refusal(op)}
        if op[0] in ("rmprefix", "move", "delete"):
            # an edit that names the webentity it expects on the prefix(es) is conditional on that: if the named webentity does
            # not own the prefix, the library refuses with its own error and nothing changes (so the net effect is none)
            return {"conditional-refuse": case.led.expect_refusal(op), "map": dict(case.led.prefix_map)}
        return None

    def after_op(self, case, op, out, pre):
        ctx = case.ctx
        if pre is not None and "conditional-refuse" in pre:
            if pre["conditional-refuse"] and out.status == "ok":
                ctx.fail("edit-not-refused", "%s%r names a webentity that does not own the prefix, yet the edit was carried out"
                         % (op[0], tuple(op[1:])[:3]), case)
            if not pre["conditional-refuse"] and out.status == "refused":
                ctx.fail("edit-refused", "%s%r was refused although the named webentity owns the prefix(es): %r"
                         % (op[0], tuple(op[1:])[:3], out.exc), case)
        elif pre is not None:
            if pre["refuse"] and out.status == "ok":
                ctx.fail("attach-not-refused", "%s %r attached a prefix that already carries a webentity" % (op[0], op[1]), case)
            if not pre["refuse"] and out.status == "refused":
                ctx.fail("attach-refused", "%s %r was refused although no named prefix carries a webentity: %r"
                         % (op[0], op[1], out.exc), case)
        if op[0] in ("create", "delete", "addprefix", "rmprefix", "move"):
            if out.status == "ok":
                case.state.setdefault("edit-kinds", set()).add(op[0])
        self.check_state(case, sorted(case.led.closure))

    def draw_probes(self, case, data):
        clos = sorted(case.led.closure)
        if not clos:
            return []
        qs = []
        for _ in range(data.draw(st.integers(1, 4))):
            base = data.draw(st.sampled_from(clos))
            k = data.draw(st.integers(0, 2))
            if k == 0:
                qs.append(data.draw(near_miss(base)))
            elif k == 1:
                qs.append(base + data.draw(st.sampled_from([b"p:zz|", b"p:a|q:zz|", b"h:zz|"])))
            else:
                qs.append(data.draw(lru_from(case.vocab, clos)) if case.vocab is not None else base)
        return [("probe", "resolve", qs)]

    def run_probe(self, case, pop):
        for q in pop[2]:
            if q not in case.led.closure:
                case.flag("absent-or-partial-query")
        self.check_queries(case, pop[2])

    def check_queries(self, case, queries):
        ctx, led, t = case.ctx, case.led, case.t
        for q in queries:
            ew, ep = longest_prefix(led.prefix_map, q)
            try:
                gw = case.call_may_refuse("retrieve_webentity", t.retrieve_webentity, ob.arg(q))
            except TraphException:
                gw = None
            try:
                gp = case.call_may_refuse("retrieve_prefix", t.retrieve_prefix, ob.arg(q))
                gp = bytes(gp) if gp else gp
            except TraphException:
                gp = None
            if gw != ew:
                ctx.fail("resolution-webentity", "retrieve_webentity(%r) -> %r, longest attached stem-prefix %r carries %r"
                         % (q, gw, ep, ew), case)
            if gp != ep:
                ctx.fail("resolution-prefix", "retrieve_prefix(%r) -> %r, longest attached stem-prefix is %r" % (q, gp, ep), case)

    def check_state(self, case, queries):
        ctx, led, t = case.ctx, case.led, case.t
        check_prefix_enumeration(case)
        self.check_queries(case, queries)
        for p in queries:
            try:
                g = case.call_may_refuse("get_webentity_by_prefix", t.get_webentity_by_prefix, ob.arg(p))
            except TraphException:
                g = None
            if g != led.prefix_map.get(p):
                ctx.fail("by-prefix", "get_webentity_by_prefix(%r) -> %r, the net edits say %r" % (p, g, led.prefix_map.get(p)), case)
        for p in led.prefix_map:
            if any(a in led.prefix_map for a in prefixes_of(p, proper=True)):
                case.flag("nested-prefixes")
                break

    def nontrivial(self, case):
        return (len(case.state.get("edit-kinds", ())) >= 2 and "nested-prefixes" in case.flags
                and "absent-or-partial-query" in case.flags)


    # scale probe (tv/scale.py): 320 webentities (ids beyond 256), 1280+ pages, judged once by this property's oracle
    def extra_checks(self, ctx, tier, seed, shard, nshards):
        if shard != 2 % nshards:
            return
        from ..scale import build
        case = build(self, ctx, 320 if tier == "quick" else 700)
        try:
            self.check_state(case, sorted(case.led.closure)[::3])
            ctx.extra["scale_probe_pages"] += len(case.led.pages)
            ctx.extra["scale_probe_webentities"] += len(case.led.webentities())
        finally:
            case.abort()

PROP = C04()
