"""C18 A torn or truncated write history is refused or opens consistent."""
import os
import shutil
import tempfile

from ..core import Prop, guard, Violation, HarnessError, _innermost_repo_frame
from ..ops import scratch_root
from ..rules import RULES
from ..codec import B
from ..crash import Recorder, write_folder
from ..env import Traph, TraphException
from .. import observe as ob


class C18(Prop):
    ID = "C18"
    LEVEL = "fault_enumeration"
    TECHNIQUE = ("fault enumeration: Hypothesis-generated write histories x EVERY cut of the recorded program-ordered write log "
                 "(block granularity exhaustively, byte granularity inside appends), reopen + full observation + subset oracle")
    RULE = ("cases = one case per (history, cut). Histories are Hypothesis-generated write histories on an on-disk index whose "
            "FileStorage.write calls and store truncations (open 'wb+' in clear() / overwrite) are logged in program order; for EACH history EVERY cut after a logged write is taken "
            "(exhaustive at block granularity), plus cuts inside each appending write (quick: 3 byte offsets; thorough: 9, and "
            "all 127 for the first twelve appends), plus the cut between the two file creations. The files are rebuilt from the log "
            "prefix and opened with the rules re-supplied: a TraphException is accepted only if a file is not a whole number "
            "of blocks or one store is missing; otherwise the full observation layer (every traversal and query) must run "
            "without any exception and report only pages (with their marks) and link weights that the completed history "
            "holds just before or just after the interrupted request. non-trivial = the cut lies strictly inside a write request; distinct = (history, cut).")
    MODES = ("url", "mixed", "raw")
    LONG_BIAS = 0.4
    WEIGHTS = {"page": 4, "pages": 2, "links": 3, "batch": 3, "again": 1, "create": 2, "delete": 1, "addprefix": 1,
               "rmprefix": 1, "move": 1, "rule": 2, "unrule": 1, "reopen": 1, "clear": 1, "recreate": 1}
    QUICK = (3, 9)
    THOROUGH = (30, 16)
    LEVEL_TEXT = ("Fault enumeration: for each generated history every crash point of the program-ordered write log is "
                  "enumerated (all block-granularity cuts; sampled byte offsets inside appends) and the reopened index is "
                  "checked against the refusal rule and the subset-of-completed-history oracle. Exhaustive per history, "
                  "sampled over histories.")
    LEVEL_NOTE = ("Crash model of the property: only an initial part of the writes issued so far is in the files; in-place block "
                  "rewrites atomic; both files cut at the same program point. OS-level reordering/fsync behaviour is outside "
                  "the property. The write log is taken by wrapping FileStorage.write inside the harness process.")
    ASSUMPTIONS = ["rules re-supplied at reopen = union of the rules installed before and after the interrupted request",
                   "in-place rewrites atomic, appends can be torn at any byte (as stated by C18)"]

    def begin(self, case):
        case.state["rec"] = Recorder(case.idx.folder)
        # the constructor's own writes happened before the recorder existed: re-create the index under recording
        case.idx.close()
        case.idx.open(True, dict(case.idx.rules))
        case.state["rec"].mark()
        case.state["rules_after"] = [dict(case.led.rules)]
        case.state["truth"] = [({}, {})]      # what the history has submitted after each request (index 0 = creation)

    def after_op(self, case, op, out, pre):
        case.state["rec"].mark()
        case.state["rules_after"].append(dict(case.led.rules))
        case.state["truth"].append((dict(case.led.pages), dict(case.led.links)))

    def end(self, case):
        rec = case.state["rec"]
        rec.detach()
        ctx = case.ctx
        tier = ctx.tier
        final = case.call("observation of the completed history", ob.snapshot, case.t, sorted(case.led.closure))
        final_pages = dict(final["pages"])
        final_w = {}
        for p, ls in final["page_links"].items():
            for s, t, w in ls:
                final_w[(s, t)] = w
        lrus = sorted(case.led.closure)
        default = case.idx.default_rule
        scratch = tempfile.mkdtemp(prefix="tv-cut-", dir=scratch_root())
        try:
            marks = rec.marks
            n = len(rec.log)
            # op index of each write
            def op_of(k):
                for i, m in enumerate(marks):
                    if k < m:
                        return i
                return len(marks) - 1
            # special cut: between the two file creations
            truth = case.state["truth"]

            def ref(oi):
                """pages (crawled if crawled on either side) and link weights (the larger) that the completed history holds just
                before or just after request number oi; with clear()/re-creation in the history the FINAL state is no longer a
                superset of the earlier ones, so the reference is taken around the interrupted request"""
                lo, hi = truth[max(0, min(oi - 1, len(truth) - 1))], truth[max(0, min(oi, len(truth) - 1))]
                pg = dict(lo[0])
                for p_, c_ in hi[0].items():
                    pg[p_] = pg.get(p_, False) or c_
                w_ = dict(lo[1])
                for e_, x_ in hi[1].items():
                    w_[e_] = max(w_.get(e_, 0), x_)
                return pg, w_
            final_pages, final_w = ref(0)
            self.check_cut(case, scratch, b"", None, lrus, default, {}, final_pages, final_w, "between-file-creations")
            ctx.extra["cuts_special"] += 1
            nappends = 0
            for k in range(0, n + 1):
                oi = op_of(k) if k < n else len(marks) - 1
                rules = dict(case.state["rules_after"][max(0, oi - 1)])
                rules.update(case.state["rules_after"][min(oi, len(case.state["rules_after"]) - 1)])
                inside = k not in marks and k != 0 and k != n
                final_pages, final_w = ref(oi)
                trie, link = rec.rebuild(k)
                self.check_cut(case, scratch, trie, link, lrus, default, rules, final_pages, final_w, "after-write-%d-of-%d" % (k, n))
                ctx.extra["cuts_block"] += 1
                ctx.record_case(list(case.ops) + [("cut", k, 0)], ["cut-inside-request"] if inside else ["cut-at-request-boundary"],
                                inside, sample={"history_ops": len(case.ops), "writes_logged": n, "cut_after_write": k})
                if k < n and rec.log[k][3]:
                    ln = len(rec.log[k][2])
                    nappends += 1
                    if tier == "quick":
                        offs = sorted({1, ln // 2, ln - 1})
                    elif nappends <= 12:
                        offs = list(range(1, ln))
                    else:
                        offs = sorted({1, 2, 15, 16, 17, ln // 2, 75, 76, ln - 1})
                    for b in offs:
                        if 0 < b < ln:
                            trie, link = rec.rebuild(k, b)
                            self.check_cut(case, scratch, trie, link, lrus, default, rules, final_pages, final_w,
                                           "inside-append-%d-at-byte-%d" % (k, b))
                            ctx.extra["cuts_byte"] += 1
                            ctx.record_case(list(case.ops) + [("cut", k, b)], ["cut-inside-append"], True)
        finally:
            shutil.rmtree(scratch, ignore_errors=True)
        for which, off, data, grows in rec.log:
            if off == -1:
                case.flag("truncation-logged")
            if which == "trie" and grows and len(data) == 128 and data[75] & 64:
                case.flag("tail-block-written")

    def check_cut(self, case, folder, trie, link, lrus, default, rules, final_pages, final_w, label):
        ctx = case.ctx
        final_count_links = sum(final_w.values())
        write_folder(folder, trie, link)
        partial = (trie is not None and len(trie) % 128 != 0) or (link is not None and len(link) % 16 != 0)
        missing = trie is None or link is None
        t = None
        try:
            try:
                t = Traph(folder=folder, overwrite=False, encoding=case.config.encoding,
                          default_webentity_creation_rule=RULES[default],
                          webentity_creation_rules={a: RULES[n] for a, n in rules.items()})
            except TraphException as e:
                if partial or missing:
                    ctx.event("cut:refused")
                    return
                ctx.fail("refused-without-cause", "cut %s: both stores are whole numbers of blocks (%d / %d bytes) yet the folder is refused: %r"
                         % (label, len(trie), len(link), e), case)
            except Exception as e:
                fr = _innermost_repo_frame(e.__traceback__)
                if fr is None:
                    raise
                ctx.fail("open-fails", "cut %s: opening raised %s in %s:%s -- %r (stores %s / %s bytes)"
                         % (label, type(e).__name__, fr[0], fr[1], e, len(trie), None if link is None else len(link)), case)
            ctx.event("cut:opened-partial" if (partial or missing) else "cut:opened")
            try:
                snap = ob.snapshot(t, lrus)
            except Exception as e:
                if isinstance(e, (Violation, HarnessError)) or type(e).__module__.startswith("hypothesis"):
                    raise
                fr = _innermost_repo_frame(e.__traceback__)
                if fr is None:
                    raise
                ctx.fail("query-fails", "cut %s: the reopened index raised %s in %s:%s -- %r" % (label, type(e).__name__, fr[0], fr[1], e), case)
            for p, c in snap["pages"]:
                if p not in final_pages:
                    ctx.fail("page-not-in-completed-history", "cut %s: reopened index reports page %r, the completed history does not" % (label, p), case)
                if c and not final_pages[p]:
                    ctx.fail("crawled-not-in-completed-history", "cut %s: page %r reported crawled, not crawled in the completed history" % (label, p), case)
            if snap["count_pages"] > len(final_pages):
                ctx.fail("page-not-in-completed-history", "cut %s: count_pages=%d exceeds the completed history's %d" % (label, snap["count_pages"], len(final_pages)), case)
            if snap["count_links"] > final_count_links:
                ctx.fail("link-not-in-completed-history", "cut %s: count_links=%r exceeds the completed history's %r" % (label, snap["count_links"], final_count_links), case)
            for p, ls in snap["page_links"].items():
                for s, d, w in ls:
                    if w > final_w.get((s, d), 0):
                        ctx.fail("link-not-in-completed-history", "cut %s: link %r -> %r reported with weight %r, completed history has %r"
                                 % (label, s, d, w, final_w.get((s, d), 0)), case)
            for a, b in snap["links_out"]:
                if (a, b) not in final_w:
                    ctx.fail("link-not-in-completed-history", "cut %s: links_iter reports %r -> %r" % (label, a, b), case)
            for a, b in snap["links_in"]:
                if (b, a) not in final_w:
                    ctx.fail("link-not-in-completed-history", "cut %s: links_iter(out=False) reports %r <- %r" % (label, a, b), case)
        finally:
            if t is not None:
                try:
                    t.close()
                except Exception:
                    pass

    def nontrivial(self, case):
        return False   # cases are recorded per cut, inside end()

    # fixed scenarios: the very first LRU of the index is a one-stem page of 75 / 149 / 223 / 300 bytes (its head is the root
    # block, reachable by every traversal even before anything points to it), followed by a sibling and a link; every cut
    def extra_checks(self, ctx, tier, seed, shard, nshards):
        from ..core import Case
        from ..ops import Config
        lens = [75, 149, 223, 300]
        for j, n in enumerate(lens):
            if j % nshards != shard % len(lens) or shard >= len(lens):
                continue
            for crawled in (False, True):
                case = Case(self, ctx, Config(backend="file", default_rule="domain"), None)
                try:
                    first = b"r" * (n - 1) + b"|"
                    case.step(("page", first, crawled))
                    case.step(("page", b"q" * 80 + b"|", True))
                    case.step(("links", [(first, first + b"c|"), (b"zz|", first)]))
                    case.finish(record=True)        # runs end(): every cut of the recorded write log
                    ctx.extra["first_lru_scenarios"] += 1
                finally:
                    if not case.finished:
                        case.abort()


PROP = C18()
