"""C05 Webentity page sets partition the pages and agree with resolution."""
from hypothesis import strategies as st

from ..core import Prop
from ..spec import prefixes_of
from .. import observe as ob


class C05(Prop):
    ID = "C05"
    RULE = ("cases = Hypothesis histories over URL stems biased to nested webentities, several prefixes per webentity and "
            "same-webentity nested prefixes; after EVERY step, relationally and model-free: for every enumerated webentity W, "
            "get_webentity_pages(W, all its prefixes in a drawn order) has no duplicate and equals {page p of pages_iter : "
            "retrieve_webentity(p) == W} with the marks pages_iter reports; the union over W covers exactly the pages that "
            "resolve; get_webentity_crawled_pages is the crawled subset. non-trivial = >= 2 webentities, one nested below "
            "another, each holding >= 1 page.")
    MODES = ("url",)
    LONG_BIAS = 0.25
    BACKENDS = ("file", "file", "memory")
    WEIGHTS = {"page": 5, "pages": 3, "links": 2, "batch": 2, "again": 1, "create": 4, "delete": 1, "addprefix": 4,
               "rmprefix": 1, "move": 2, "rule": 2, "unrule": 1, "reopen": 1, "clear": 1, "recreate": 1}
    QUICK = (40, 20)
    THOROUGH = (200, 40)
    ASSUMPTIONS = ["relational oracle: page enumeration, resolution and prefix enumeration of the same index are the reference"]

    def draw_probes(self, case, data):
        wes = case.led.webentities()
        orders = []
        for w in sorted(wes):
            ps = wes[w]
            if len(ps) > 1:
                orders.append((w, list(data.draw(st.permutations(ps)))))
        return [("probe", "webentity-pages", orders)]

    def run_probe(self, case, pop):
        self.check_state(case, {w: ps for w, ps in pop[2]})

    def after_op(self, case, op, out, pre):
        pass

    def check_state(self, case, orders):
        ctx, t = case.ctx, case.t
        pg, R, _ = ob.resolution_of_pages(case)
        wes = ob.enumerated_webentities(case)
        covered = {}
        holders = set()
        for w, ps in sorted(wes.items()):
            order = orders.get(w, ps)
            if sorted(order) != ps:
                order = ps          # the probe was drawn for another state (reduced replay)
            got = case.call("get_webentity_pages", t.get_webentity_pages, w, ob.args(order))
            lrus = [bytes(g["lru"]) for g in got]
            if len(lrus) != len(set(lrus)):
                dup = sorted(l for l in set(lrus) if lrus.count(l) > 1)
                ctx.fail("duplicate-in-answer", "get_webentity_pages(%r, %r) lists %r twice" % (w, order[:3], dup[:2]), case)
            exp = set(p for p in pg if R[p] == w)
            if set(lrus) != exp:
                ctx.fail("page-set", "get_webentity_pages(%r): missing %r, extra %r (extra pages resolve to %r)"
                         % (w, sorted(exp - set(lrus))[:2], sorted(set(lrus) - exp)[:2],
                            [R.get(x) for x in sorted(set(lrus) - exp)[:2]]), case)
            for g in got:
                lg = bytes(g["lru"])
                if lg in case.led.pages and lg not in case.led.k2_only and bool(g["crawled"]) != case.led.pages[lg]:
                    ctx.fail("crawled-mark-vs-submissions", "get_webentity_pages(%r) reports %r crawled=%r, the submissions say %r"
                             % (w, lg, g["crawled"], case.led.pages[lg]), case)
            for g in got:
                if bool(g["crawled"]) != pg[bytes(g["lru"])]:
                    ctx.fail("crawled-mark", "get_webentity_pages(%r) reports %r crawled=%r, pages_iter says %r"
                             % (w, g["lru"], g["crawled"], pg[bytes(g["lru"])]), case)
            gc = case.call("get_webentity_crawled_pages", t.get_webentity_crawled_pages, w, ob.args(order))
            cl = [bytes(g["lru"]) for g in gc]
            if len(cl) != len(set(cl)) or set(cl) != set(p for p in exp if pg[p]) or not all(g["crawled"] for g in gc):
                ctx.fail("crawled-only", "get_webentity_crawled_pages(%r) = %r, expected the crawled subset %r"
                         % (w, sorted(cl)[:3], sorted(p for p in exp if pg[p])[:3]), case)
            for l in lrus:
                covered[l] = covered.get(l, 0) + 1
            if exp:
                holders.add(w)
        twice = [l for l, n in covered.items() if n > 1]
        if twice:
            ctx.fail("page-in-two-webentities", "%r is listed under two webentities" % twice[:2], case)
        # pages the ledger knows were submitted: each one that resolves must be listed under that webentity, even if the page
        # enumeration has lost it (the answer of get_webentity_pages and resolution must agree for every indexed page)
        for p in sorted(case.led.pages):
            if p in pg:
                continue
            w = R[p]
            if w is not None and p not in covered:
                ctx.fail("submitted-page-unlisted", "page %r was submitted and resolves to webentity %r, but neither pages_iter nor get_webentity_pages(%r) lists it"
                         % (p, w, w), case)
        resolving = set(p for p in pg if R[p] is not None)
        if set(covered) != resolving:
            ctx.fail("partition", "pages that resolve but are listed nowhere: %r; listed but not resolving: %r"
                     % (sorted(resolving - set(covered))[:2], sorted(set(covered) - resolving)[:2]), case)
        # classification
        pm = {}
        for w, ps in wes.items():
            for p in ps:
                pm[p] = w
        for p, w in pm.items():
            if w in holders:
                for a in prefixes_of(p, proper=True):
                    x = pm.get(a)
                    if x and x != w and x in holders:
                        case.flag("nested-webentities-with-pages")
                    if x and x == w:
                        case.flag("same-webentity-nested-prefix")

    def nontrivial(self, case):
        return "nested-webentities-with-pages" in case.flags


    # scale probe (tv/scale.py): 320 webentities (ids beyond 256), 1280+ pages, judged once by this property's oracle
    def extra_checks(self, ctx, tier, seed, shard, nshards):
        if shard != 2 % nshards:
            return
        from ..scale import build
        case = build(self, ctx, 320 if tier == "quick" else 700)
        try:
            self.check_state(case, {})
            ctx.extra["scale_probe_pages"] += len(case.led.pages)
            ctx.extra["scale_probe_webentities"] += len(case.led.webentities())
        finally:
            case.abort()

PROP = C05()
