"""C09 Page pagination is complete, duplicate-free, ordered and resumable."""
from hypothesis import strategies as st

from ..core import Prop, Case, run_given
from ..ops import Config
from ..codec import B
from ..gen import op_strategy
from ..spec import path_from_digits
from .. import observe as ob

INSERT_WEIGHTS = {"page": 4, "pages": 2, "links": 2, "batch": 2, "again": 1}


def draw_gaps(case, data, n_gaps=6):
    """write requests (page insertions only) to be issued between successive pagination calls"""
    gaps = []
    for _ in range(n_gaps):
        g = []
        for _ in range(data.draw(st.sampled_from([0, 0, 1, 1, 2]))):
            g.append(data.draw(op_strategy(case.vocab, case.led, INSERT_WEIGHTS, case.config.backend, case.ops)))
        gaps.append(g)
    return gaps


def membership(case, w, crawled_only):
    """pages of webentity w right now, with the prefix each one resolves to: {lru: (prefix, crawled)}"""
    pg, R, P = ob.resolution_of_pages(case)
    return {p: (P[p], c) for p, c in pg.items() if R[p] == w and (c or not crawled_only)}


class C09(Prop):
    ID = "C09"
    TECHNIQUE = ("stateful property-based testing (Hypothesis) with exhaustive page sizes / resume points per state, must/may "
                 "oracle under insertions, token round-trip property, degenerate-shape probes")
    RULE = ("cases = Hypothesis histories; after EVERY step, for a drawn webentity with its prefixes in a drawn order and "
            "crawled_only drawn: (a) STATIC: for EVERY page size k in 1..n+1 the whole chain of paginate_webentity_pages calls "
            "(each token fed back, so every resume point is visited with k=1) must concatenate to exactly: prefix by prefix in "
            "the given order, the pages resolving to that prefix in ascending byte order; non-final answers hold exactly k "
            "pages and a token, the final one says done, count/count_crawled match contents; (b) DYNAMIC: page-inserting "
            "requests (add_page/add_pages/add_links/index_batch_crawl) are issued between successive calls: no LRU twice, "
            "every page that belonged to the webentity at every call boundary is returned, every returned page belonged at some "
            "boundary, non-final answers still hold exactly k; (c) tokens: parse(build(i, path)) == (i, path) for drawn i and "
            "paths of up to 400 base-4 digits in 1..3, and every token the index returned round-trips; (d) degenerate shapes: "
            "50 and 300 siblings inserted in sorted order, and a 1000-stem-deep LRU (known finding K3). non-trivial = a chain "
            "needed >= 2 calls AND the webentity had >= 2 prefixes or pages >= 2 stems below a prefix.")
    MODES = ("url", "url", "mixed")
    LONG_BIAS = 0.25
    BACKENDS = ("file", "file", "memory")
    WEIGHTS = {"page": 6, "pages": 3, "links": 2, "batch": 2, "again": 1, "create": 3, "delete": 1, "addprefix": 3,
               "rmprefix": 1, "move": 1, "rule": 1, "unrule": 1, "reopen": 1, "clear": 1}
    QUICK = (30, 16)
    THOROUGH = (150, 36)
    ASSUMPTIONS = ["relational oracle: pages_iter + retrieve_prefix/webentity of the same index define membership and segments",
                   "ascending order = byte-wise order of the LRUs (equals in-order of the stem BSTs because stems end in '|')",
                   "known finding K3: RecursionError when the pointer path below a prefix is >= ~900 long"]

    # -- drawing -----------------------------------------------------------------------------------
    def draw_probes(self, case, data):
        wes = case.led.webentities()
        if not wes:
            return []
        w = data.draw(st.sampled_from(sorted(wes)))
        order = list(data.draw(st.permutations(wes[w])))
        co = data.draw(st.sampled_from([False, False, True]))
        probes = [("probe", "static", w, order, co)]
        if data.draw(st.integers(0, 2)) == 0:
            k = data.draw(st.sampled_from([1, 1, 2, 3]))
            probes.append(("probe", "dynamic", w, order, co, k, draw_gaps(case, data)))
        return probes

    # -- evaluation -----------------------------------------------------------------------------------
    def expected_sequence(self, case, w, order, co):
        mem = membership(case, w, co)
        seq = []
        for P in order:
            seq += sorted((p, c) for p, (pp, c) in mem.items() if pp == P)
        return seq, mem

    def run_probe(self, case, pop):
        try:
            self._run_probe(case, pop)
        except RecursionError:
            case.ctx.fail("recursion", "RecursionError while paging in a generated history (pointer paths are < 60 long)", case)

    def _run_probe(self, case, pop):
        kind = pop[1]
        if kind == "static":
            self.static(case, pop[2], [B(x) for x in pop[3]], pop[4])
        elif kind == "dynamic":
            self.dynamic(case, pop[2], [B(x) for x in pop[3]], pop[4], pop[5], pop[6])
        elif kind == "token":
            self.token(case.ctx, case, pop[2], pop[3])

    def call(self, case, w, order, k, tok, co):
        return case.call("paginate_webentity_pages", case.t.paginate_webentity_pages, w, ob.args(order), page_count=k,
                         pagination_token=tok, crawled_only=co, _passthrough=(RecursionError,))

    def check_answer(self, case, r, k, label):
        ctx = case.ctx
        pages = r["pages"]
        if r["count"] != len(pages):
            ctx.fail("count", "%s: count=%r but %d pages in the answer" % (label, r["count"], len(pages)), case)
        if r["count_crawled"] != sum(1 for g in pages if g["crawled"]):
            ctx.fail("count-crawled", "%s: count_crawled=%r, %d crawled pages in the answer"
                     % (label, r["count_crawled"], sum(1 for g in pages if g["crawled"])), case)
        if not r["done"]:
            if len(pages) != k:
                ctx.fail("non-final-size", "%s: a non-final answer holds %d pages, %d were requested" % (label, len(pages), k), case)
            tok = r.get("token")
            if not tok:
                ctx.fail("no-token", "%s: a non-final answer carries no token" % label, case)
            from traph.helpers import parse_pagination_token, build_pagination_token
            i, path = case.call("parse_pagination_token(%r)" % (tok,), parse_pagination_token, tok)
            back = case.call("build_pagination_token", build_pagination_token, i, path)
            if back != tok:
                ctx.fail("token-round-trip", "%s: token %r parses to (%r, %r) which builds %r" % (label, tok, i, path, back), case)
        elif r.get("token"):
            ctx.fail("final-with-token", "%s: the final answer carries a token" % label, case)

    def static(self, case, w, order, co):
        ctx = case.ctx
        if sorted(order) != sorted(case.led.webentities().get(w, [])):
            return      # drawn for another state (reduced replay)
        # before any other read: one complete chain with k=2 (pagination as the first request after the preceding write)
        first, tok = [], None
        for _ in range(len(case.led.pages) + 3):
            r = self.call(case, w, order, 2, tok, co)
            first += [(bytes(g["lru"]), bool(g["crawled"])) for g in r["pages"]]
            if r["done"]:
                break
            tok = r["token"]
        seq, mem = self.expected_sequence(case, w, order, co)
        if first != seq:
            ctx.fail("sequence", "k=2 as the first request after the last write: paging yields %r, expected %r" % (first[:8], seq[:8]), case)
        n = len(seq)
        ks = list(range(1, n + 2)) if n <= 14 else [1, 2, 3, 5, n - 1, n, n + 1]
        deep = any(p.count(b"|") - pp.count(b"|") >= 2 for p, (pp, c) in mem.items())
        for k in ks:
            got = []
            tok = None
            calls = 0
            while True:
                r = self.call(case, w, order, k, tok, co)
                calls += 1
                label = "paginate_webentity_pages(%r, %d prefixes, k=%d, crawled_only=%r) call %d" % (w, len(order), k, co, calls)
                self.check_answer(case, r, k, label)
                got += [(bytes(g["lru"]), bool(g["crawled"])) for g in r["pages"]]
                if r["done"]:
                    break
                tok = r["token"]
                if calls > n + 3:
                    ctx.fail("endless", "%s: more calls than pages (%d) and still not done" % (label, n), case)
            if k == 1 and calls >= 2:
                # a token fed back WITHOUT a page count ("everything that is left")
                r1 = self.call(case, w, order, 1, None, co)
                r2 = self.call(case, w, order, None, r1.get("token"), co)
                both = [(bytes(g["lru"]), bool(g["crawled"])) for g in list(r1["pages"]) + list(r2["pages"])]
                if not r2["done"] or both != seq:
                    ctx.fail("resume-without-count", "crawled_only=%r: first answer (k=1) then the token with no page count: done=%r, got %r, expected %r"
                             % (co, r2["done"], both[:6], seq[:6]), case)
            if got != seq:
                dup = [x for x in got if got.count(x) > 1]
                ctx.fail("sequence", "k=%d crawled_only=%r prefixes %r: paging yields %r, expected %r (missing %r, repeated %r)"
                         % (k, co, order, got[:8], seq[:8], [x for x in seq if x not in got][:3], dup[:3]), case)
            if calls >= 2 and (len(order) >= 2 or deep):
                case.flag("multi-call-chain-over-prefixes-or-depth")
            if calls >= 2:
                case.flag("multi-call-chain")
            ctx.extra["static_chains"] += 1
        if co:
            case.flag("crawled-only")

    def dynamic(self, case, w, order, co, k, gaps):
        ctx = case.ctx
        if sorted(order) != sorted(case.led.webentities().get(w, [])):
            return
        snaps = [membership(case, w, co)]
        got = []
        tok = None
        calls = 0
        inserted = 0
        while True:
            r = self.call(case, w, order, k, tok, co)
            calls += 1
            label = "paginate_webentity_pages(%r, k=%d, crawled_only=%r) call %d with insertions between calls" % (w, k, co, calls)
            self.check_answer(case, r, k, label)
            got += [bytes(g["lru"]) for g in r["pages"]]
            if r["done"]:
                break
            tok = r["token"]
            if calls - 1 < len(gaps):
                for op in gaps[calls - 1]:
                    case.step(tuple(op), record=False)
                    inserted += 1
            snaps.append(membership(case, w, co))
            if sorted(case.led.webentities().get(w, [])) != sorted(order):
                break       # the webentity's own prefix list changed: outside the quantifier
            if calls > max(len(s) for s in snaps) + 5:
                ctx.fail("endless", "%s: still not done" % label, case)
        if len(got) != len(set(got)):
            ctx.fail("repeated", "pages repeated across answers when insertions happen between calls: %r"
                     % sorted(x for x in set(got) if got.count(x) > 1)[:3], case)
        if r["done"]:
            must = set(snaps[0])
            for s in snaps[1:]:
                must &= set(s)
            may = set()
            for s in snaps:
                may |= set(s)
            miss = sorted(must - set(got))
            if miss:
                ctx.fail("skipped", "pages that belonged to webentity %r at every call boundary were never returned: %r (k=%d, %d calls)"
                         % (w, miss[:3], k, calls), case)
            extra = sorted(set(got) - may)
            if extra:
                ctx.fail("foreign", "pages returned that belonged to webentity %r at no call boundary: %r" % (w, extra[:3]), case)
        if inserted and calls >= 2:
            case.flag("insertions-between-calls")
        case.ctx.extra["dynamic_chains"] += 1

    def nontrivial(self, case):
        return "multi-call-chain-over-prefixes-or-depth" in case.flags

    # -- tokens and degenerate shapes ----------------------------------------------------------------------
    def token(self, ctx, case, i, digits):
        from traph.helpers import parse_pagination_token, build_pagination_token
        from ..core import guard
        path = path_from_digits(digits)
        fake = case if case is not None else _Fake(("probe", "token", i, list(digits)))
        tok = guard(ctx, fake, "build_pagination_token", build_pagination_token, i, path)
        back = guard(ctx, fake, "parse_pagination_token", parse_pagination_token, tok)
        if tuple(back) != (i, path):
            ctx.fail("token-round-trip", "build(%d, path of %d digits) = %r parses back to %r" % (i, len(digits), tok, back), fake)
        if not isinstance(tok, str) or "#" not in tok:
            ctx.fail("token-round-trip", "token %r is not text of the form i#path" % (tok,), fake)

    def extra_checks(self, ctx, tier, seed, shard, nshards):
        n = 300 if tier == "quick" else 5000

        def one(x):
            i, digits = x
            self.token(ctx, None, i, digits)
            ctx.extra["token_round_trips"] += 1
        run_given(seed * 1000 + 700 + shard, n,
                  st.tuples(st.integers(0, 10 ** 6), st.lists(st.sampled_from([1, 2, 3]), min_size=0, max_size=400)), one)
        if shard == 5 % nshards:
            self.covering_creation(ctx)
        # degenerate shapes, spread over the shards
        jobs = [("siblings", 50), ("siblings", 300), ("deep", 120), ("deep", 1000), ("comb", 10)]
        for j, (shape, size) in enumerate(jobs):
            if j % nshards == shard % len(jobs) and shard < len(jobs):
                self.degenerate(ctx, shape, size)

    def covering_creation(self, ctx):
        """fixed dynamic scenarios: a hand-made webentity on ONE prefix holds pages under several children (one of them the
        h:www| host); while it is paged with k=1, a request inserted after the j-th call creates (automatically) a webentity
        that covers the page the cursor stands on or an ancestor of it.  For every j: must/may oracle of the dynamic check."""
        site = b"s:http|h:com|h:site|"
        pages = [site + b"h:www|p:b|", site + b"h:www|p:a|", site + b"p:m|", site + b"p:z|", site + b"h:www|", site + b"p:m|p:n|"]
        intruders = [("page", b"s:https|h:com|h:site|p:q|", False),          # default rule: also takes s:http|...|h:www| variations
                     ("links", [(b"s:https|h:com|h:site|h:www|p:k|", site + b"p:z|")])]
        for intr in intruders:
            for j in range(0, 6):
                case = Case(self, ctx, Config(backend="memory", default_rule="domain"), None)
                try:
                    case.step(("create", [site]))
                    case.step(("pages", pages, True))
                    w = case.led.prefix_map[site]
                    gaps = [[] for _ in range(8)]
                    gaps[j] = [intr]
                    case.ops.append(("probe", "dynamic", w, [site], False, 1, gaps))
                    self.dynamic(case, w, [site], False, 1, gaps)
                    ctx.extra["covering_creation_scenarios"] += 1
                finally:
                    case.abort()

    def degenerate(self, ctx, shape, size):
        case = Case(self, ctx, Config(backend="memory"), None)
        try:
            base = b"s:http|h:com|h:deg|"
            if shape == "comb":
                lrus = []
                for c in b"abcdefghij"[:size]:
                    top = base + b"p:%c|" % c
                    lrus += [top, top + b"p:x|", top + b"p:x|p:y|", top + b"p:z|"]
                case.step(("pages", lrus, True))
            elif shape == "siblings":
                lrus = [base + b"p:%05d|" % i for i in range(size)]
                case.step(("pages", lrus, True))
            else:
                lrus = [base + b"p:a|" * size]
                case.step(("page", lrus[0], True))
            w = case.t.retrieve_webentity(lrus[0])
            order = [p for p, x in sorted(case.led.prefix_map.items()) if x == w]
            case.ops.append(("probe", "static", w, order, False))
            try:
                seq, mem = self.expected_sequence(case, w, order, False)
                got, tok, calls = [], None, 0
                k = 1 if shape == "comb" else 7
                while True:
                    r = self.call(case, w, order, k, tok, False)
                    calls += 1
                    self.check_answer(case, r, k, "degenerate %s/%d call %d" % (shape, size, calls))
                    got += [(bytes(g["lru"]), bool(g["crawled"])) for g in r["pages"]]
                    if r["done"]:
                        break
                    tok = r["token"]
                    if calls > len(seq) + 3:
                        ctx.fail("endless", "degenerate %s/%d" % (shape, size), case)
                if got != seq:
                    ctx.fail("sequence", "degenerate %s/%d: paging yields %d pages, expected %d" % (shape, size, len(got), len(seq)), case)
                ctx.extra["degenerate_%s_%d" % (shape, size)] += 1
            except RecursionError as e:
                if size >= 900 and ctx.tolerate("K3", "%s of %d" % (shape, size)):
                    return
                ctx.fail("recursion", "RecursionError while paging a webentity whose longest pointer path is %d" % size, case)
        finally:
            case.abort()

    def known_repros(self):
        def k3(ctx):
            case = Case(self, ctx, Config(backend="memory"), None)
            try:
                l = b"s:http|h:com|h:deg|" + b"p:a|" * 1000
                case.idx.apply(("page", l, True))
                w = case.t.retrieve_webentity(l)
                order = [p for p, x in ob.prefix_entries(case) if x == w]
                try:
                    case.t.paginate_webentity_pages(w, order, page_count=3)
                    return False
                except RecursionError:
                    return True
            finally:
                case.abort()
        return {"K3": k3}


class _Fake(object):
    def __init__(self, op):
        self.ops = [op]
        self.failed = False

    def config_json(self):
        return Config().to_json()


PROP = C09()
