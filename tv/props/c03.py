"""C03 Link multigraph fidelity with inbound/outbound symmetry."""
import itertools
from collections import Counter

from ..core import Prop, Case
from ..ops import Config
from ..codec import B
from .. import observe as ob
from .. import fsck


class C03(Prop):
    ID = "C03"
    RULE = ("cases = Hypothesis histories heavy in add_links / index_batch_crawl (repeated links, self-links, pages that are "
            "source and target in one request, empty target lists) interleaved with page/webentity/rule writes and reopen; "
            "after EVERY step, for every page: get_page_links (out, in, internal sides and their weights) vs the Counter of "
            "submitted (source,target) pairs, out-weight(s->t) == in-weight(t<-s) == submissions, count_links, links_iter in "
            "both directions (transposes, no pair twice), the six degree figures, and the raw link lists via fsck; at the end "
            "all 8 switch combinations of get_page_links; plus one scale probe (a hub page with > 1000 links, a link repeated at both "
            "ends of its list). non-trivial = >= 1 link submitted more than once AND (>= 1 "
            "self-link OR a page that is both source and target within one request).")
    MODES = ("url", "mixed", "raw")
    LONG_BIAS = 0.25
    BACKENDS = ("file", "file", "memory")
    WEIGHTS = {"page": 2, "pages": 1, "links": 6, "batch": 6, "again": 3, "create": 1, "delete": 1, "addprefix": 1,
               "rmprefix": 0, "move": 0, "rule": 1, "unrule": 0, "reopen": 1, "clear": 1, "recreate": 1}
    QUICK = (40, 18)
    THOROUGH = (200, 40)
    TECHNIQUE = ("stateful property-based testing (Hypothesis) against a ledger oracle; thorough tier adds coverage-guided "
                 "fuzzing of histories (atheris/libFuzzer driving Hypothesis' fuzz_one_input)")
    FUZZ_RUNS = 400
    ASSUMPTIONS = ["Counter of submitted (source,target) pairs is the ground truth"]

    def before_op(self, case, op):
        if op[0] in ("links", "batch"):
            srcs, tgts = set(), set()
            pairs = []
            if op[0] == "links":
                pairs = [(B(s), B(t)) for s, t in op[1]]
            else:
                for s, ts in op[1]:
                    pairs += [(B(s), B(t)) for t in ts]
                    if not ts:
                        case.flag("batch-empty-targets")
            for s, t in pairs:
                srcs.add(s)
                tgts.add(t)
                if s == t:
                    case.flag("self-link")
            srcs_o = set(s for s, t in pairs if s != t)
            tgts_o = set(t for s, t in pairs if s != t)
            if srcs_o & tgts_o:
                case.flag("source-and-target-in-one-request")
        return None

    def after_op(self, case, op, out, pre):
        self.check_state(case, full=False)

    def end(self, case):
        self.check_state(case, full=True)

    def check_state(self, case, full):
        ctx, led, t = case.ctx, case.led, case.t
        L = led.links
        if any(w > 1 for w in L.values()):
            case.flag("repeated-link")
        total = sum(L.values())
        n = ob.count_links(case)
        if n != total:
            ctx.fail("count-links", "count_links()=%r, %d links were submitted" % (n, total), case)
        outs = ob.links_iter(case, True)
        inns = ob.links_iter(case, False)
        if len(outs) != len(set(outs)):
            ctx.fail("links-iter-duplicate", "links_iter(out=True) yields a pair twice", case)
        if len(inns) != len(set(inns)):
            ctx.fail("links-iter-duplicate", "links_iter(out=False) yields a pair twice", case)
        if set(outs) != set(L):
            ctx.fail("links-iter-out", "links_iter(out=True): missing %r, extra %r"
                     % (sorted(set(L) - set(outs))[:2], sorted(set(outs) - set(L))[:2]), case)
        if set((b, a) for a, b in inns) != set(outs):
            ctx.fail("links-iter-transpose", "links_iter(out=False) is not the transpose of links_iter(out=True)", case)
        by_src, by_tgt = {}, {}
        for (s, d), w in L.items():
            by_src.setdefault(s, {})[d] = w
            by_tgt.setdefault(d, {})[s] = w
        for p in sorted(led.pages):
            exp = []
            for d, w in by_src.get(p, {}).items():
                exp.append((p, d, w))
            for s, w in by_tgt.get(p, {}).items():
                if s != p:
                    exp.append((s, p, w))
            got = ob.page_links(case, p)
            if sorted(got) != sorted(exp):
                ctx.fail("page-links", "get_page_links(%r) = %r, submissions give %r" % (p, sorted(got)[:6], sorted(exp)[:6]), case)
            if len(got) != len(set((s, d) for s, d, _ in got)):
                ctx.fail("page-links-duplicate", "get_page_links(%r) lists a pair twice" % p, case)
            # degrees
            ind = sum(1 for s in by_tgt.get(p, {}) if s != p)
            outd = sum(1 for d in by_src.get(p, {}) if d != p)
            wind = sum(w for s, w in by_tgt.get(p, {}).items() if s != p)
            woutd = sum(w for d, w in by_src.get(p, {}).items() if d != p)
            selfw = L.get((p, p), 0)
            figs = {
                ("get_page_indegree", False): ind, ("get_page_indegree", True): wind,
                ("get_page_outdegree", False): outd, ("get_page_outdegree", True): woutd,
                ("get_page_degree", False): ind + outd + (1 if selfw else 0),
                ("get_page_degree", True): wind + woutd + selfw,
            }
            for (name, weighted), want in figs.items():
                g = case.call(name, getattr(t, name), ob.arg(p), weighted=weighted)
                if g != want:
                    ctx.fail("degree", "%s(%r, weighted=%r) = %r, expected %r" % (name, p, weighted, g, want), case)
            if full:
                for ii, io, ib in itertools.product((False, True), repeat=3):
                    exp2 = [x for x in exp if (x[0] == p and x[1] == p and ii) or (x[0] == p and x[1] != p and io)
                            or (x[1] == p and x[0] != p and ib)]
                    got2 = ob.page_links(case, p, include_inbound=ib, include_internal=ii, include_outbound=io)
                    if sorted(got2) != sorted(exp2):
                        ctx.fail("page-links-switches", "get_page_links(%r, inbound=%r, internal=%r, outbound=%r) = %r, expected %r"
                                 % (p, ib, ii, io, sorted(got2)[:4], sorted(exp2)[:4]), case)
        # symmetry on the raw lists
        a, b = case.idx.raw()
        errs, info = fsck.check(a, b)
        bad = [e for e in errs if "stub" in e[0] or e[0] in ("links-on-non-page", "partial-block")]
        if bad:
            ctx.fail("fsck:" + bad[0][0], "; ".join(e[1] for e in bad[:3]), case)
        if not errs:
            oc, ic = fsck.link_counter(info)
            if oc != L:
                ctx.fail("raw-out-lists", "outbound stub lists hold %r, submissions %r" % (sorted((oc - L).items())[:2], sorted((L - oc).items())[:2]), case)
            if ic != L:
                ctx.fail("raw-in-lists", "inbound stub lists differ from the submissions: %r / %r" % (sorted((ic - L).items())[:2], sorted((L - ic).items())[:2]), case)

    def nontrivial(self, case):
        f = case.flags
        return "repeated-link" in f and ("self-link" in f or "source-and-target-in-one-request" in f)

    # scale probe: one hub page with far more links than any generated history holds (list lengths > 1000), a link repeated
    # at the two ends of the hub's list, a self-link in the middle
    def extra_checks(self, ctx, tier, seed, shard, nshards):
        if shard != 0:
            return
        n = 1100 if tier == "quick" else 2600
        case = Case(self, ctx, Config(backend="memory"), None)
        case.minimize = False
        try:
            hub = b"s:http|h:com|h:hub|"
            t0 = b"s:http|h:com|h:hub|p:target|"
            others = [b"s:http|h:com|h:o%d|p:%d|" % (i % 7, i) for i in range(n)]
            deep = b"s:http|h:com|h:deep|" + b"p:d|" * 300
            for op in (("links", [(deep, t0), (t0, deep), (deep, deep)]),
                       ("links", [(hub, t0), (hub, t0)]),
                       ("batch", [(hub, others[: n // 2] + [hub] + others[n // 2:])], 50),
                       ("links", [(hub, t0), (others[3], hub), (others[3], hub)])):
                out = case.idx.apply(op)
                if out.status != "ok":
                    ctx.fail("exception", "scale probe: request %s failed: %r" % (op[0], out.exc), case)
                case.led.apply(op, out)
                case.ops.append(op)
            self.check_state(case, full=False)      # one evaluation of the whole oracle on the big state
            ctx.extra["scale_probe_links"] += sum(case.led.links.values())
        finally:
            case.abort()


PROP = C03()
