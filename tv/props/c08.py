"""C08 Per-webentity link queries agree with page links and resolution."""
import itertools

from hypothesis import strategies as st

from ..core import Prop
from .. import observe as ob


class C08(Prop):
    ID = "C08"
    RULE = ("cases = Hypothesis histories with links inside, out of and into webentities (nested ones included) and pages "
            "without webentity; after EVERY step, relationally, for every enumerated webentity W queried with its full prefix "
            "list (in a drawn order) and each of the 7 admissible include_internal/include_outbound/include_inbound "
            "combinations: get_webentity_pagelinks as a multiset == the page-level links (get_page_links) whose ends resolve "
            "(retrieve_webentity) accordingly, each once with full weight; get_webentity_outlinks / inlinks == the set of "
            "webentities (None for none) the other ends resolve to; the three degree figures are the set sizes. "
            "non-trivial = some webentity has >= 1 internal, >= 1 outbound and >= 1 inbound link.")
    MODES = ("url", "url", "mixed")
    LONG_BIAS = 0.2
    BACKENDS = ("file", "file", "memory")
    WEIGHTS = {"page": 2, "pages": 2, "links": 6, "batch": 5, "again": 1, "create": 3, "delete": 1, "addprefix": 2,
               "rmprefix": 1, "move": 1, "rule": 1, "unrule": 1, "reopen": 1, "clear": 1}
    QUICK = (40, 20)
    THOROUGH = (200, 40)
    ASSUMPTIONS = ["relational oracle: get_page_links + retrieve_webentity + prefix enumeration of the same index are the reference"]

    def draw_probes(self, case, data):
        wes = case.led.webentities()
        orders = []
        for w in sorted(wes):
            if len(wes[w]) > 1:
                orders.append((w, list(data.draw(st.permutations(wes[w])))))
        return [("probe", "webentity-links", orders)]

    def run_probe(self, case, pop):
        orders = {w: ps for w, ps in pop[2]}
        ctx, t = case.ctx, case.t
        pg, R, _ = ob.resolution_of_pages(case)
        links = ob.all_page_links(case, sorted(pg))
        wes = ob.enumerated_webentities(case)
        for w, ps in sorted(wes.items()):
            order = orders.get(w, ps)
            if sorted(order) != ps:
                order = ps
            internal = sorted((s, d, x) for s, d, x in links if R[s] == w and R[d] == w)
            outbound = sorted((s, d, x) for s, d, x in links if R[s] == w and R[d] != w)
            inbound = sorted((s, d, x) for s, d, x in links if R[d] == w and R[s] != w)
            if internal and outbound and inbound:
                case.flag("webentity-with-internal+outbound+inbound")
            for ii, io, ib in itertools.product((False, True), repeat=3):
                if not (ii or io or ib):
                    continue
                exp = sorted((internal if ii else []) + (outbound if io else []) + (inbound if ib else []))
                got = case.call("get_webentity_pagelinks", t.get_webentity_pagelinks, w, ob.args(order),
                                include_inbound=ib, include_internal=ii, include_outbound=io)
                got = sorted((bytes(a), bytes(b), c) for a, b, c in got)
                if got != exp:
                    ctx.fail("pagelinks", "get_webentity_pagelinks(%r, internal=%r, outbound=%r, inbound=%r): missing %r, extra %r"
                             % (w, ii, io, ib, [x for x in exp if x not in got][:3], [x for x in got if x not in exp][:3]), case)
            eo = set(R[d] for s, d, x in links if R[s] == w)
            ei = set(R[s] for s, d, x in links if R[d] == w)
            go = case.call("get_webentity_outlinks", t.get_webentity_outlinks, w, ob.args(order))
            gi = case.call("get_webentity_inlinks", t.get_webentity_inlinks, w, ob.args(order))
            if set(go) != eo:
                ctx.fail("cited-webentities", "get_webentity_outlinks(%r) = %r, expected %r" % (w, go, eo), case)
            if set(gi) != ei:
                ctx.fail("citing-webentities", "get_webentity_inlinks(%r) = %r, expected %r" % (w, gi, ei), case)
            figs = (("get_webentity_outdegree", len(eo)), ("get_webentity_indegree", len(ei)),
                    ("get_webentity_degree", len(eo) + len(ei)))
            for name, want in figs:
                g = case.call(name, getattr(t, name), w, list(order))
                if g != want:
                    ctx.fail("degree", "%s(%r) = %r, expected %r" % (name, w, g, want), case)

    def nontrivial(self, case):
        return "webentity-with-internal+outbound+inbound" in case.flags


    # scale probe (tv/scale.py): 320 webentities (ids beyond 256), 1280+ pages, judged once by this property's oracle
    def extra_checks(self, ctx, tier, seed, shard, nshards):
        if shard != 2 % nshards:
            return
        from ..scale import build
        case = build(self, ctx, 320 if tier == "quick" else 700)
        try:
            self.run_probe(case, ("probe", "webentity-links", []))
            ctx.extra["scale_probe_pages"] += len(case.led.pages)
            ctx.extra["scale_probe_webentities"] += len(case.led.webentities())
        finally:
            case.abort()

PROP = C08()
