"""C15 In-memory and on-disk indexes are observationally equivalent."""
from ..core import Prop, guard
from ..ops import Index, Config
from ..spec import stems_of
from .. import observe as ob


def compare_outcomes(ctx, case, op, a, b, na, nb):
    if a.status != b.status:
        ctx.fail("report-status", "request %s: %s index -> %s (%r), %s index -> %s (%r)"
                 % (op[0], na, a.status, a.exc, nb, b.status, b.exc), case)
    if a.status == "ok":
        ca = {k: sorted(v) for k, v in a.created.items()}
        cb = {k: sorted(v) for k, v in b.created.items()}
        if a.new_pages != b.new_pages or ca != cb:
            ctx.fail("report", "request %s: %s index reports (%r, %r), %s index reports (%r, %r)"
                     % (op[0], na, a.new_pages, ca, nb, b.new_pages, cb), case)


class C15(Prop):
    ID = "C15"
    RULE = ("cases = Hypothesis twin histories: the same drawn requests are applied to an index created on disk and to one "
            "created without a folder, both with the same configuration (default rule, 0-3 anchored rules, overwrite flag "
            "in {False, True}), over raw and URL stems including multi-block stems; after EVERY step the write reports are "
            "compared, the full observation layer (every query of tv/observe.snapshot) is compared, the raw contents of both "
            "stores are compared byte for byte, and for the file twin FileStorage.map().read(b) == FileStorage.read(b) for "
            "every block offset and one past the end. non-trivial = the history holds a multi-block stem or an anchored rule "
            "that created a webentity.")
    MODES = ("url", "mixed", "raw")
    LONG_BIAS = 0.35
    OVERWRITE = (False, True)
    WEIGHTS = {"page": 4, "pages": 2, "links": 3, "batch": 3, "again": 1, "create": 2, "delete": 1, "addprefix": 1,
               "rmprefix": 1, "move": 1, "rule": 2, "unrule": 1, "reopen": 0, "clear": 1}
    QUICK = (40, 16)
    THOROUGH = (120, 32)
    ASSUMPTIONS = ["'same configuration' includes the overwrite flag; the two indexes receive identical argument objects"]

    def begin(self, case):
        cfg = case.config.copy()
        cfg.backend = "memory"
        twin = Index(cfg)
        case.resources.append(twin)
        case.state["twin"] = twin
        if case.config.rules:
            case.flag("constructor-rules")
        if not case.config.overwrite:
            case.flag("overwrite-false")
        self.compare(case, None)

    def before_op(self, case, op):
        return {"map": dict(case.led.prefix_map)}

    # "blind" steps: the harness normally reads (and therefore flushes) both files after every request, which would hide any
    # defect that depends on writes still sitting in the file buffers when clear() or close() runs.  A drawn marker makes the
    # next 1-2 requests go unobserved (reports are still compared; they do not touch the files).
    def draw_probes(self, case, data):
        from hypothesis import strategies as st
        if data.draw(st.integers(0, 3)) == 0:
            return [("probe", "blind", data.draw(st.sampled_from([1, 1, 2])))]
        return []

    def run_probe(self, case, pop):
        if pop[1] == "blind":
            case.state["blind"] = pop[2]

    def after_op(self, case, op, out, pre):
        ctx = case.ctx
        twin = case.state["twin"]
        out2 = twin.apply(op)
        if out2.status == "error":
            from ..core import _innermost_repo_frame, HarnessError
            fr = _innermost_repo_frame(out2.exc.__traceback__)
            if fr is None:
                raise HarnessError("twin op %r: %r\n%s" % (op[0], out2.exc, out2.tb))
            ctx.fail("memory-exception", "request %s on the in-memory index raised %s in %s:%s -- %r (the on-disk index: %s)"
                     % (op[0], type(out2.exc).__name__, fr[0], fr[1], out2.exc, out.status), case)
        compare_outcomes(ctx, case, op, out, out2, "on-disk", "in-memory")
        if out.status == "ok" and out.created and op[0] in ("page", "pages", "links", "batch"):
            # did an anchored rule (not the default one) decide?
            for w, ps in out.created.items():
                for p in ps:
                    if any(p.startswith(a) for a in case.led.rules):
                        case.flag("anchored-rule-fired")
        if case.state.get("blind", 0) > 0:
            case.state["blind"] -= 1
            case.flag("unobserved-step")
            return
        self.compare(case, op)

    def compare(self, case, op):
        ctx, led = case.ctx, case.led
        twin = case.state["twin"]
        lrus = sorted(led.closure)
        sa = case.call("observation of the on-disk index", ob.snapshot, case.t, lrus)
        sb = case.call("observation of the in-memory index", ob.snapshot, twin.traph, lrus)
        d = ob.diff_snapshots(sa, sb)
        if d:
            ctx.fail("observation", "on-disk vs in-memory answers differ: %s" % d, case)
        a1, b1 = case.idx.raw()
        a2, b2 = twin.raw()
        if a1 != a2:
            ctx.fail("store-contents", "lru_trie contents differ (on-disk %d bytes, in-memory %d bytes)" % (len(a1), len(a2)), case)
        if b1 != b2:
            ctx.fail("store-contents", "link_store contents differ (on-disk %d bytes, in-memory %d bytes)" % (len(b1), len(b2)), case)
        # memory-mapped reader
        for name, storage, raw in (("lru_trie", case.t.lru_trie_storage, a1), ("link_store", case.t.links_store_storage, b1)):
            def mm():
                m = storage.map()
                try:
                    bs = storage.block_size
                    for off in range(0, len(raw) + bs, bs):
                        x = m.read(off)
                        y = storage.read(off)
                        if (bytes(x) if x else None) != (bytes(y) if y else None):
                            return off
                        if (bytes(x) if x else None) != (raw[off:off + bs] or None):
                            return off
                    return None
                finally:
                    m.release()
            off = case.call("memory-mapped read", mm)
            if off is not None:
                ctx.fail("mmap", "%s: MemMapStorage.read(%d) differs from FileStorage.read(%d)" % (name, off, off), case)
        for l in led.closure:
            if len(stems_of(l)[-1]) > 74:
                case.flag("multi-block-stem")

    def nontrivial(self, case):
        return "multi-block-stem" in case.flags or "anchored-rule-fired" in case.flags

    # scale probe: stores well beyond 64 KiB (mmap allocation granularity multiples), compared block by block
    def extra_checks(self, ctx, tier, seed, shard, nshards):
        if shard != 2 % nshards:
            return
        from ..scale import big_ops
        from ..core import Case
        case = Case(self, ctx, Config(backend="file", default_rule="domain"), None)
        case.minimize = False
        try:
            twin = case.state["twin"]
            for op in big_ops(320 if tier == "quick" else 700):
                out = case.idx.apply(op)
                out2 = twin.apply(op)
                case.led.apply(op, out)
                case.ops.append(op)
                compare_outcomes(ctx, case, op, out, out2, "on-disk", "in-memory")
            self.compare(case, None)
            a1, b1 = case.idx.raw()
            ctx.extra["scale_probe_trie_bytes"] += len(a1)
            ctx.extra["scale_probe_link_bytes"] += len(b1)
        finally:
            case.abort()


PROP = C15()
