"""C19 Storage growth is exactly accounted for; re-adding allocates nothing."""
from ..core import Prop
from ..spec import stems_of, expected_trie_blocks, expected_tail_blocks
from .. import fsck


class C19(Prop):
    ID = "C19"
    RULE = ("cases = Hypothesis histories over raw/URL stems at block-payload boundary lengths with re-submission steps; after "
            "EVERY step: trie store blocks == 1 + sum over the ledger closure of ceil(len(last stem)/74); link store blocks == "
            "1 + 2*submitted links; raw-bytes fsck finds no unreferenced or orphan block; a step that names only known LRUs "
            "grows the trie store by 0 bytes; metrics() reports the ledger's page, crawled-page, tail-block and link "
            "figures (nb_pages, nb_crawled_pages, nb_tail_nodes, nb_links). non-trivial = the history holds a stem of 75..148 bytes or an exact multiple of 74 AND a re-submission.")
    MODES = ("raw", "mixed", "url")
    LONG_BIAS = 0.5
    BACKENDS = ("file", "file", "memory")
    WEIGHTS = {"page": 4, "pages": 3, "links": 3, "batch": 3, "again": 4, "create": 2, "delete": 1, "addprefix": 2,
               "rmprefix": 1, "move": 1, "rule": 2, "unrule": 1, "reopen": 1, "clear": 1, "recreate": 1}
    QUICK = (40, 18)
    THOROUGH = (200, 40)
    TECHNIQUE = ("stateful property-based testing (Hypothesis) against a ledger oracle; thorough tier adds coverage-guided "
                 "fuzzing of histories (atheris/libFuzzer driving Hypothesis' fuzz_one_input)")
    FUZZ_RUNS = 400
    ASSUMPTIONS = ["closure of named LRUs from the ledger is the ground truth for block arithmetic",
                   "metrics().nb_crawled_pages is compared with the marks the page enumeration reports (mark correctness is C01)"]

    def before_op(self, case, op):
        a, b = case.idx.raw()
        return {"trie_len": len(a), "closure": len(case.led.closure)}

    def after_op(self, case, op, out, pre):
        ctx, led = case.ctx, case.led
        a, b = case.idx.raw()
        if op[0] not in ("clear", "recreate") and len(led.closure) == pre["closure"] and len(a) != pre["trie_len"]:
            ctx.fail("regrowth", "request %r named only known LRUs but the trie store grew from %d to %d bytes"
                     % (op[0], pre["trie_len"], len(a)), case)
        if len(a) % 128 or len(b) % 16:
            ctx.fail("partial-block", "store sizes %d / %d" % (len(a), len(b)), case)
        want = expected_trie_blocks(led.closure)
        if len(a) // 128 != want:
            ctx.fail("trie-blocks", "trie store holds %d blocks, the %d distinct stem-prefixes need %d"
                     % (len(a) // 128, len(led.closure), want), case)
        nlinks = sum(led.links.values())
        if len(b) // 16 != 1 + 2 * nlinks:
            ctx.fail("link-blocks", "link store holds %d blocks, %d submitted links need %d"
                     % (len(b) // 16, nlinks, 1 + 2 * nlinks), case)
        errs, info = fsck.check(a, b)
        bad = [e for e in errs if e[0] in ("orphan-tail", "unreferenced-block", "unreferenced-stub", "tail-chain")]
        if bad:
            ctx.fail("fsck:" + bad[0][0], "; ".join(e[1] for e in bad[:3]), case)
        if led.closure:
            m = case.call("metrics", case.t.metrics)
            lt = m["lru_trie"]
            # the crawled figure is compared with what the page enumeration reports (whether marks are RIGHT is C01)
            from .. import observe as ob
            crawled_now = sum(1 for _, c in ob.pages(case) if c)
            exp = {
                "nb_pages": len(led.pages),
                "nb_crawled_pages": crawled_now,
                "nb_tail_nodes": expected_tail_blocks(led.closure),
            }
            for k, v in exp.items():
                if lt.get(k) != v:
                    ctx.fail("metrics:" + k, "metrics().lru_trie.%s = %r, expected %r" % (k, lt.get(k), v), case)
            if m["link_store"]["nb_links"] != nlinks:
                ctx.fail("metrics:nb_links", "metrics().link_store.nb_links = %r, %d links were submitted"
                         % (m["link_store"]["nb_links"], nlinks), case)
        for l in led.closure:
            n = len(stems_of(l)[-1])
            if 75 <= n <= 148:
                case.flag("stem-75..148")
            if n % 74 == 0:
                case.flag("stem-exact-multiple")

    def nontrivial(self, case):
        f = case.flags
        return ("stem-75..148" in f or "stem-exact-multiple" in f) and "resubmission" in f

    # scale probe: one page receives more than 1024 out-links (and one more than 1024 in-links) in a single request
    def extra_checks(self, ctx, tier, seed, shard, nshards):
        if shard != 2 % nshards:
            return
        from ..core import Case
        from ..ops import Config
        n = 1100 if tier == "quick" else 2300
        case = Case(self, ctx, Config(backend="memory", default_rule="domain"), None)
        case.minimize = False
        try:
            hub = b"s:http|h:com|h:hub|"
            others = [b"s:http|h:com|h:o%d|p:%d|" % (i % 5, i) for i in range(n)]
            for op in (("batch", [(hub, others)], 50), ("links", [(o, hub) for o in others] + [(hub, hub)])):
                pre = self.before_op(case, op)
                out = case.idx.apply(op)
                if out.status != "ok":
                    ctx.fail("exception", "scale probe: request %s failed: %r" % (op[0], out.exc), case)
                case.led.apply(op, out)
                case.ops.append(op)
                self.after_op(case, op, out, pre)
            ctx.extra["scale_probe_links"] += sum(case.led.links.values())
        finally:
            case.abort()


PROP = C19()
