"""C06 Automatic webentity creation follows the creation rules exactly."""
import hashlib

from hypothesis import strategies as st

from ..core import Prop
from ..codec import B
from ..predictor import Predictor
from ..rules import RULES
from ..spec import longest_prefix, compile_rule
from ..env import TraphException
from ..lru import lru_from
from .. import observe as ob
from .c04 import check_prefix_enumeration


class C06(Prop):
    ID = "C06"
    TECHNIQUE = ("stateful property-based testing (Hypothesis) against a reference model of the decision ladder; existential "
                 "replay oracle for rule installation; metamorphic potential-prefix relation")
    RULE = ("cases = Hypothesis histories over configurations (default rule in {domain, subdomain, path1, path2}, 0-3 anchored "
            "rules of Hyphe's family at constructor time, rules added/removed mid-history, reopen with rules re-supplied) and "
            "URL LRUs; for EVERY page-inserting request the write report is compared with a reference model written from the "
            "statement (E, K, default-rule fallback, variations minus owned, one id per creation), every inserted page must "
            "then resolve to max(E,K), get_potential_prefix(L) asked before an insertion must equal retrieve_prefix(L) after it "
            "and change no byte, and every rule installation must be explained as re-inserting the pages beneath the anchor in "
            "SOME order (existential replay of the reported creations; the rest must be no-ops). non-trivial = some insertion "
            "had K proposed by an anchored rule with |K| > |E| and some insertion had 0 < |K| <= |E|.")
    MODES = ("url",)
    LONG_BIAS = 0.2
    BACKENDS = ("file", "file", "memory")
    WEIGHTS = {"page": 6, "pages": 2, "links": 2, "batch": 2, "again": 4, "create": 2, "delete": 3, "addprefix": 1,
               "rmprefix": 1, "move": 1, "rule": 4, "unrule": 2, "reopen": 2, "clear": 1, "recreate": 1}
    QUICK = (40, 22)
    THOROUGH = (200, 40)
    ASSUMPTIONS = ["rule patterns are evaluated by Python's re in the model too: the regex engine is trusted, the selection of "
                   "anchors, the comparison with E, the fallback, the expansion and the reporting are under test",
                   "explicit webentity edits are followed from the real outcomes (their correctness is C04)"]

    def begin(self, case):
        case.state["pred"] = Predictor(case.config.default_rule, case.config.rules)

    # ------------------------------------------------------------------------------------------------
    def before_op(self, case, op):
        P = case.state["pred"]
        kind = op[0]
        pre = {}
        if kind in ("page", "pages", "links", "batch"):
            sim = P.copy()
            seq = []
            for l in P.insertion_order(op):
                e, k, anchored = sim.decide(l)
                if k and len(k) > len(e) and anchored:
                    case.flag("anchored-rule-creates")
                if k and e and len(k) <= len(e):
                    case.flag("proposal-not-longer-than-existing")
                if not k and not e:
                    case.flag("no-proposal-at-all")
                c = sim.insert_page(l)
                if c:
                    seq.append(sorted(c))
                    sim.attach(c, -len(seq))   # provisional id
            pre["seq"] = seq
            pre["order"] = P.insertion_order(op)
            if kind == "page":
                l = B(op[1])
                a, b = case.idx.raw()
                h0 = (hashlib.sha256(a).digest(), hashlib.sha256(b).digest())
                pre["potential"] = case.call("get_potential_prefix", case.t.get_potential_prefix, l)
                a, b = case.idx.raw()
                if (hashlib.sha256(a).digest(), hashlib.sha256(b).digest()) != h0:
                    case.ctx.fail("potential-modifies", "get_potential_prefix(%r) changed the stores" % l, case)
                mp = P.potential(l)
                gp = pre["potential"]
                if (bytes(gp) if gp else None) != mp:
                    case.ctx.fail("potential-prefix", "get_potential_prefix(%r) = %r, max(E,K) = %r" % (l, gp, mp), case)
        return pre

    def after_op(self, case, op, out, pre):
        ctx, led = case.ctx, case.led
        P = case.state["pred"]
        kind = op[0]
        if kind in ("page", "pages", "links", "batch"):
            if out.status != "ok":
                ctx.fail("write-refused", "request %s refused: %r" % (kind, out.exc), case)
            got = [sorted(out.created[i]) for i in sorted(out.created)]
            if got != pre["seq"]:
                ctx.fail("creation-report", "request %s reported creations %r (in id order), the rules give %r"
                         % (kind, got, pre["seq"]), case)
            for l in pre["order"]:
                P.pages.add(l)
            for i in sorted(out.created):
                P.attach(out.created[i], i)
            for l in pre["order"]:
                want = longest_prefix(P.we, l)[1]
                try:
                    g = case.call_may_refuse("retrieve_prefix", case.t.retrieve_prefix, l)
                    g = bytes(g)
                except TraphException:
                    g = None
                if g != want:
                    ctx.fail("resolves-to-max", "after the request, retrieve_prefix(%r) = %r, max(E,K) = %r" % (l, g, want), case)
            if kind == "page":
                # potential prefix asked before == what the page resolves to now.  The page may resolve to a scheme/www
                # VARIATION of that prefix when the variation is itself a stem-prefix of the page (http://www.a.com/ under
                # the domain rule): same webentity, so the relation is stated on the owning webentity and on the class.
                l = B(op[1])
                pp = pre["potential"]
                pp = bytes(pp) if pp else None
                w_now, p_now = longest_prefix(P.we, l)
                if pp is None:
                    if p_now is not None:
                        ctx.fail("potential-vs-actual", "get_potential_prefix(%r) found nothing before the insertion, the page now resolves to %r" % (l, p_now), case)
                else:
                    from ..spec import variations
                    if P.we.get(pp) != w_now or p_now not in variations(pp):
                        ctx.fail("potential-vs-actual", "get_potential_prefix(%r) said %r before the insertion; the page now resolves to %r (webentity %r), %r belongs to webentity %r"
                                 % (l, pp, p_now, w_now, pp, P.we.get(pp)), case)
        elif kind == "rule":
            anchor = B(op[1])
            P.rules[anchor] = compile_rule(RULES[op[2]])
            if out.status != "ok":
                ctx.fail("write-refused", "rule installation refused: %r" % (out.exc,), case)
            remaining = sorted(p for p in P.pages if p.startswith(anchor))
            if remaining:
                case.flag("rule-installed-above-pages")
            for i in sorted(out.created):
                want = sorted(out.created[i])
                hit = None
                for p in remaining:
                    c = P.insert_page(p, simulate=True)
                    if c and sorted(c) == want:
                        hit = p
                        break
                if hit is None:
                    effects = [(p, P.insert_page(p, simulate=True)) for p in remaining]
                    ctx.fail("rule-installation", "installing %s at %r reported webentity %r = %r, which re-inserting no remaining page beneath the anchor produces (possible now: %r)"
                             % (op[2], anchor, i, want, [(p, c) for p, c in effects if c][:3]), case)
                P.attach(out.created[i], i)
                remaining.remove(hit)
                case.flag("rule-installation-created")
            for p in remaining:
                c = P.insert_page(p, simulate=True)
                if c:
                    ctx.fail("rule-installation", "installing %s at %r: page %r beneath the anchor should have produced webentity %r, nothing was reported for it"
                             % (op[2], anchor, p, sorted(c)), case)
        elif kind == "unrule":
            if out.status == "ok":
                P.rules.pop(B(op[1]), None)
        elif kind == "clear":
            P.reset(op[1], {B(a): n for a, n in op[2]})
        elif kind == "recreate":
            if out.status != "ok":
                ctx.fail("write-refused", "re-creating the index on its folder with overwrite=True failed: %r" % (out.exc,), case)
            P.reset(case.led.default_rule, dict(case.led.rules))
            case.flag("recreated-with-overwrite")
        elif kind in ("create", "delete", "addprefix", "rmprefix", "move"):
            # explicit edits: follow the ledger (which follows the real outcome)
            P.we = dict(led.prefix_map)
        # the model's map, the ledger's map (reports) and the real enumeration must be the same thing
        if P.we != led.prefix_map:
            ctx.fail("model-vs-reports", "prefix map predicted from the rules differs from the reported one: %r"
                     % (sorted(set(P.we.items()) ^ set(led.prefix_map.items()))[:3],), case)
        check_prefix_enumeration(case)

    # potential prefix of arbitrary LRUs ----------------------------------------------------------------
    def draw_probes(self, case, data):
        clos = sorted(case.led.closure)
        qs = [data.draw(lru_from(case.vocab, clos)) for _ in range(data.draw(st.integers(1, 3)))]
        return [("probe", "potential", qs)]

    def run_probe(self, case, pop):
        P = case.state["pred"]
        for q in pop[2]:
            g = case.call("get_potential_prefix", case.t.get_potential_prefix, q)
            want = P.potential(q)
            if (bytes(g) if g else None) != want:
                case.ctx.fail("potential-prefix", "get_potential_prefix(%r) = %r, max(E,K) = %r" % (q, g, want), case)

    def nontrivial(self, case):
        f = case.flags
        return "anchored-rule-creates" in f and "proposal-not-longer-than-existing" in f


PROP = C06()
