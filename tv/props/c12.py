"""C12 Webentity ids are fresh, increasing and survive restarts."""
from ..core import Prop
from ..codec import B
from .c04 import check_prefix_enumeration


class C12(Prop):
    ID = "C12"
    RULE = ("cases = Hypothesis histories heavy in explicit creations, deletions, page insertions that create webentities "
            "automatically, rule installations, close/reopen and clear; for EVERY write report each created id must exceed "
            "every id issued since creation/clear (ids of deleted webentities and ids issued before a reopen included), an "
            "explicit creation must yield exactly one id, and the prefix enumeration must show exactly the reported prefixes "
            "under that id (no id appears that was never reported). non-trivial = a creation after a deletion AND a creation "
            "after a reopen. A second, unrelated in-memory index is kept alive in the same process and creates one webentity every "
            "third step: each index counts for itself.")
    MODES = ("url",)
    LONG_BIAS = 0.2
    BACKENDS = ("file", "file", "memory")
    WEIGHTS = {"page": 4, "pages": 2, "links": 1, "batch": 2, "again": 0, "create": 5, "delete": 4, "addprefix": 1,
               "rmprefix": 1, "move": 1, "rule": 2, "unrule": 1, "reopen": 4, "clear": 1, "recreate": 1}
    QUICK = (40, 22)
    THOROUGH = (200, 40)
    TECHNIQUE = ("stateful property-based testing (Hypothesis) against a ledger oracle; thorough tier adds coverage-guided "
                 "fuzzing of histories (atheris/libFuzzer driving Hypothesis' fuzz_one_input)")
    FUZZ_RUNS = 400
    ASSUMPTIONS = ["ids are compared with the ids the index itself reported earlier; no particular numbering is assumed"]

    def before_op(self, case, op):
        led = case.led
        return {"max": max(led.issued) if led.issued else 0, "issued": set(led.issued)}

    def after_op(self, case, op, out, pre):
        ctx, led = case.ctx, case.led
        st = case.state
        if op[0] in ("clear", "recreate"):
            pre = {"max": 0, "issued": set()}
        if op[0] == "delete" and out.status == "ok":
            st["deleted"] = True
        if op[0] == "reopen":
            st["reopened"] = True
        if out.status == "ok" and out.created:
            ids = sorted(out.created)
            for i in ids:
                if not isinstance(i, int) or isinstance(i, bool) or i <= 0:
                    ctx.fail("id-invalid", "request %s reported webentity id %r" % (op[0], i), case)
                if i <= pre["max"] or i in pre["issued"]:
                    ctx.fail("id-not-fresh", "request %s reported id %r although id %r had already been issued (issued so far: %r)"
                             % (op[0], i, pre["max"], sorted(pre["issued"])[-5:]), case)
            if st.get("deleted"):
                case.flag("creation-after-deletion")
            if st.get("reopened"):
                case.flag("creation-after-reopen")
            if op[0] == "create":
                if len(ids) != 1:
                    ctx.fail("one-request-one-id", "create_webentity reported ids %r" % ids, case)
                if sorted(out.created[ids[0]]) != sorted(set(B(p) for p in op[1])):
                    ctx.fail("one-request-one-id", "create_webentity(%r) reported prefixes %r" % (op[1], out.created[ids[0]]), case)
        if op[0] == "create" and out.status == "ok" and not out.created:
            ctx.fail("one-request-one-id", "create_webentity succeeded but reported no id", case)
        self.bystander(case)
        got = check_prefix_enumeration(case)
        unknown = sorted(set(got.values()) - set(led.issued))
        if unknown:
            ctx.fail("id-never-reported", "prefixes carry ids %r that no report ever announced" % unknown[:3], case)

    def bystander(self, case):
        """a second, unrelated index alive in the same process (opened at the 3rd step, one creation every 3rd step): each
        index counts for itself, so neither its opening nor its creations may disturb the ids of the index under test
        (checked by the clauses above on the next creation), and its own ids must be fresh too"""
        st = case.state
        k = st["steps"] = st.get("steps", 0) + 1
        if k % 3:
            return
        from ..env import Traph
        from ..rules import RULES
        try:
            if st.get("bystander") is None:
                st["bystander"] = Traph(folder=None, default_webentity_creation_rule=RULES["domain"], webentity_creation_rules={})
                st["bystander_ids"] = []
            rep = st["bystander"].create_webentity([b"s:http|h:com|h:bystander%d|" % k])
            ids = sorted(rep.created_webentities)
        except Exception as e:
            case.ctx.fail("bystander-exception", "a second in-memory index in the same process raised %r at step %d" % (e, k), case)
            return
        seen = st["bystander_ids"]
        if len(ids) != 1 or (seen and ids[0] <= max(seen)):
            case.ctx.fail("id-not-fresh", "a second index alive in the same process reported ids %r after having issued %r (the index under test had issued up to %r)"
                          % (ids, seen[-5:], max(case.led.issued) if case.led.issued else 0), case)
        seen.extend(ids)
        case.flag("bystander-creation")

    def nontrivial(self, case):
        return "creation-after-deletion" in case.flags and "creation-after-reopen" in case.flags


PROP = C12()
