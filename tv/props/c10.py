"""C10 Pagelink pagination is complete, duplicate-free and resumable."""
from collections import Counter

from hypothesis import strategies as st

from ..core import Prop, Case
from ..ops import Config
from ..codec import B
from .. import observe as ob


class C10(Prop):
    ID = "C10"
    TECHNIQUE = ("stateful property-based testing (Hypothesis) with exhaustive source-page counts / resume points per state, "
                 "differential against the unpaginated query")
    RULE = ("cases = Hypothesis histories mixing link-bearing and link-less pages under webentities with several prefixes "
            "(prefixes without link-bearing pages included); after EVERY step, for a drawn webentity with its prefixes in a "
            "drawn order, for each switch setting (internal, outbound, both) and for EVERY source-page count k in 1..n+1 "
            "(n = link-bearing source pages), the whole chain of paginate_webentity_pagelinks calls (each token fed back, so "
            "with k=1 every resume point is visited): the multiset union of the answers must equal get_webentity_pagelinks for "
            "the same switches, each link once with its weight; every non-final answer covers exactly k link-bearing source "
            "pages and carries a token, the final one says done, counts match contents, no call raises, and the chain ends "
            "within n+2 calls. non-trivial = a chain of >= 2 calls over a webentity that has a link-less page or >= 2 prefixes.")
    MODES = ("url", "url", "mixed")
    LONG_BIAS = 0.2
    BACKENDS = ("file", "file", "memory")
    WEIGHTS = {"page": 5, "pages": 3, "links": 5, "batch": 4, "again": 1, "create": 2, "delete": 2, "addprefix": 3,
               "rmprefix": 2, "move": 1, "rule": 1, "unrule": 1, "reopen": 1, "clear": 1}
    QUICK = (30, 16)
    THOROUGH = (150, 36)
    ASSUMPTIONS = ["relational oracle: the unpaginated get_webentity_pagelinks of the same index is the reference (its own "
                   "correctness is C08)", "known finding K3 (RecursionError on ~1000-long pointer paths) shared with C09"]

    def draw_probes(self, case, data):
        wes = case.led.webentities()
        if not wes:
            return []
        # every webentity (at most five, drawn), each with its prefixes in a drawn order: paginated answers of one webentity
        # must not depend on what was paginated for another one before
        ws = sorted(wes)
        if len(ws) > 5:
            ws = sorted(data.draw(st.lists(st.sampled_from(ws), min_size=5, max_size=5, unique=True)))
        return [("probe", "static", w, list(data.draw(st.permutations(wes[w])))) for w in ws]

    def run_probe(self, case, pop):
        try:
            self.static(case, pop[2], [B(x) for x in pop[3]])
        except RecursionError:
            case.ctx.fail("recursion", "RecursionError while paging in a generated history (pointer paths are < 60 long)", case)

    def static(self, case, w, order):
        ctx, t = case.ctx, case.t
        if sorted(order) != sorted(case.led.webentities().get(w, [])):
            return
        # before ANY other read: one complete chain per switch setting with k=1, so that pagination is the first request to
        # touch the stores after the preceding write (whatever that write left in the file buffers)
        first = {}
        for ii, io in ((True, False), (False, True), (True, True)):
            acc = Counter()
            tok = None
            for _ in range(len(case.led.pages) + 3):
                r = case.call("paginate_webentity_pagelinks (first request after a write)", t.paginate_webentity_pagelinks, w,
                              ob.args(order), include_internal=ii, include_outbound=io, source_page_count=1,
                              pagination_token=tok, _passthrough=(RecursionError,))
                for a_, b_, c_ in r["pagelinks"]:
                    acc[(bytes(a_), bytes(b_), c_)] += 1
                if r["done"]:
                    break
                tok = r["token"]
            first[(ii, io)] = acc
        pg, R, P = ob.resolution_of_pages(case)
        mine = [p for p in pg if R[p] == w]
        for ii, io in ((True, False), (False, True), (True, True)):
            ref = case.call("get_webentity_pagelinks", t.get_webentity_pagelinks, w, list(order),
                            include_inbound=False, include_internal=ii, include_outbound=io)
            ref = Counter((bytes(a), bytes(b), c) for a, b, c in ref)
            if first[(ii, io)] != ref:
                ctx.fail("links", "internal=%r outbound=%r: paging (k=1) as the first request after the last write returns %r too often / not in the unpaginated answer, misses %r"
                         % (ii, io, sorted((first[(ii, io)] - ref).items())[:3], sorted((ref - first[(ii, io)]).items())[:3]), case)
            sources = set(a for a, b, c in ref)
            n = len(sources)
            linkless = [p for p in mine if p not in sources]
            ks = list(range(1, n + 2)) if n <= 10 else [1, 2, 3, n, n + 1]
            for k in ks:
                got = Counter()
                tok = None
                calls = 0
                while True:
                    label = "paginate_webentity_pagelinks(%r, %d prefixes, internal=%r, outbound=%r, k=%d) call %d" % (
                        w, len(order), ii, io, k, calls + 1)
                    r = case.call(label, t.paginate_webentity_pagelinks, w, ob.args(order), include_internal=ii,
                                  include_outbound=io, source_page_count=k, pagination_token=tok,
                                  _passthrough=(RecursionError,))
                    calls += 1
                    links = [(bytes(a), bytes(b), c) for a, b, c in r["pagelinks"]]
                    srcs = set(a for a, b, c in links)
                    if r["count_pagelinks"] != len(links):
                        ctx.fail("count", "%s: count_pagelinks=%r, %d links in the answer" % (label, r["count_pagelinks"], len(links)), case)
                    if r["count_sourcepages"] != len(srcs):
                        ctx.fail("count", "%s: count_sourcepages=%r, %d distinct source pages in the answer" % (label, r["count_sourcepages"], len(srcs)), case)
                    for x in links:
                        got[x] += 1
                    if r["done"]:
                        if r.get("token"):
                            ctx.fail("final-with-token", "%s: final answer carries a token" % label, case)
                        break
                    if len(srcs) != k:
                        ctx.fail("non-final-size", "%s: a non-final answer covers %d link-bearing source pages, %d were requested" % (label, len(srcs), k), case)
                    tok = r.get("token")
                    if not tok:
                        ctx.fail("no-token", "%s: non-final answer without token" % label, case)
                    if calls > n + 2:
                        ctx.fail("endless", "%s: %d calls for %d link-bearing source pages and still not done (token %r)" % (label, calls, n, tok), case)
                if k == 1 and calls >= 2:
                    # a token fed back WITHOUT a count ("everything that is left"): first answer with k=1, then the rest at once
                    r1 = case.call("paginate_webentity_pagelinks", t.paginate_webentity_pagelinks, w, ob.args(order),
                                   include_internal=ii, include_outbound=io, source_page_count=1, _passthrough=(RecursionError,))
                    r2 = case.call("paginate_webentity_pagelinks (token, no count)", t.paginate_webentity_pagelinks, w,
                                   ob.args(order), include_internal=ii, include_outbound=io, source_page_count=None,
                                   pagination_token=r1.get("token"), _passthrough=(RecursionError,))
                    both = Counter((bytes(a_), bytes(b_), c_) for a_, b_, c_ in list(r1["pagelinks"]) + list(r2["pagelinks"]))
                    if not r2["done"] or both != ref:
                        ctx.fail("resume-without-count", "internal=%r outbound=%r: first answer (k=1) + resume with the token and no count: done=%r, too often %r, missing %r"
                                 % (ii, io, r2["done"], sorted((both - ref).items())[:3], sorted((ref - both).items())[:3]), case)
                if got != ref:
                    ctx.fail("links", "internal=%r outbound=%r k=%d prefixes %r: paging returns %r too often / not in the unpaginated answer, misses %r"
                             % (ii, io, k, order[:3], sorted((got - ref).items())[:3], sorted((ref - got).items())[:3]), case)
                ctx.extra["static_chains"] += 1
                if calls >= 2:
                    case.flag("multi-call-chain")
                    if linkless or len(order) >= 2:
                        case.flag("multi-call-chain-with-linkless-page-or-several-prefixes")
                    if linkless and len(order) >= 2:
                        case.flag("multi-call-chain-with-linkless-page-and-several-prefixes")

    def nontrivial(self, case):
        return "multi-call-chain-with-linkless-page-or-several-prefixes" in case.flags

    def extra_checks(self, ctx, tier, seed, shard, nshards):
        if shard == 0:
            self.degenerate(ctx, 120)
        if shard == 1:
            self.degenerate(ctx, 1000)
        if shard == 2 % nshards:
            self.comb(ctx)

    def comb(self, ctx):
        """fixed shape: ten siblings inserted in ascending order (a right chain), each with a child and a grandchild page, every
        page bearing links: with k=1 every token is issued, so the paths cover all alignments of left/child/right steps
        (including the base-64 digits '-' and '_' of the token alphabet)"""
        case = Case(self, ctx, Config(backend="memory", default_rule="domain"), None)
        try:
            site = b"s:http|h:com|h:comb|"
            pages = []
            for c in b"abcdefghij":
                top = site + b"p:%c|" % c
                pages += [top, top + b"p:x|", top + b"p:x|p:y|", top + b"p:z|"]
            case.step(("pages", pages, True))
            case.step(("links", [(p, pages[(i * 3 + 1) % len(pages)]) for i, p in enumerate(pages)]))
            w = case.t.retrieve_webentity(pages[0])
            order = [p for p, x in sorted(case.led.prefix_map.items()) if x == w]
            case.ops.append(("probe", "static", w, order))
            self.static(case, w, order)
            ctx.extra["comb_shape"] += 1
        finally:
            case.abort()

    def degenerate(self, ctx, size):
        case = Case(self, ctx, Config(backend="memory"), None)
        try:
            l = b"s:http|h:com|h:deg|" + b"p:a|" * size
            case.step(("links", [(l, b"s:http|h:com|h:deg|p:b|")]))
            w = case.t.retrieve_webentity(l)
            order = [p for p, x in sorted(case.led.prefix_map.items()) if x == w]
            case.ops.append(("probe", "static", w, order))
            try:
                self.static(case, w, order)
                ctx.extra["degenerate_deep_%d" % size] += 1
            except RecursionError:
                if size >= 900 and ctx.tolerate("K3", "deep %d" % size):
                    return
                ctx.fail("recursion", "RecursionError while paging pagelinks of a webentity whose longest pointer path is %d" % size, case)
        finally:
            case.abort()

    def known_repros(self):
        def k3(ctx):
            case = Case(self, ctx, Config(backend="memory"), None)
            try:
                l = b"s:http|h:com|h:deg|" + b"p:a|" * 1000
                case.idx.apply(("links", [(l, b"s:http|h:com|h:deg|p:b|")]))
                w = case.t.retrieve_webentity(l)
                order = [p for p, x in ob.prefix_entries(case) if x == w]
                try:
                    case.t.paginate_webentity_pagelinks(w, order, source_page_count=1)
                    return False
                except RecursionError:
                    return True
            finally:
                case.abort()
        return {"K3": k3}


PROP = C10()
