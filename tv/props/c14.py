"""C14 Queries never modify the index."""
import hashlib

from hypothesis import strategies as st

from ..core import Prop
from ..codec import B
from ..env import TraphException
from ..lru import lru_from
from .c02 import near_miss

# every public read-only request, with the shape of its arguments
#   L = an LRU, W = (weid, prefixes), F3 = three switches, B = bool
QUERIES = [
    ("retrieve_prefix", "L"), ("retrieve_webentity", "L"), ("get_potential_prefix", "L"), ("get_webentity_by_prefix", "L"),
    ("expand_prefix", "L"),
    ("get_page_links", "LF3"), ("get_page_indegree", "LB"), ("get_page_outdegree", "LB"), ("get_page_degree", "LB"),
    ("get_webentity_pages", "W"), ("get_webentity_crawled_pages", "W"), ("get_webentity_parent_webentities", "W"),
    ("get_webentity_child_webentities", "W"), ("get_webentity_outlinks", "W"), ("get_webentity_inlinks", "W"),
    ("get_webentity_outdegree", "W"), ("get_webentity_indegree", "W"), ("get_webentity_degree", "W"),
    ("get_webentity_pagelinks", "WF3"), ("get_webentity_most_linked_pages", "WKD"),
    ("paginate_webentity_pages", "WKTB"), ("paginate_webentity_pagelinks", "WF2KT"),
    ("get_webentities_links", "BB"), ("get_webentities_links_slow", "BB"), ("get_webentities_inlinks", "B"),
    ("get_webentities_outlinks", "B"),
    ("links_iter", "B"), ("pages_iter", ""), ("webentity_prefix_iter", ""),
    ("count_pages", ""), ("count_crawled_pages", ""), ("count_links", ""), ("links_metrics", ""), ("metrics", ""),
    ("lru_trie.lru_node", "L"), ("lru_trie.follow_lru", "L"), ("lru_trie.dfs_iter", ""), ("lru_trie.bst_metrics", ""),
]
TOKENS = [None, "0#0", "0#2", "0#a", "1#0", "0#1", "0#3", "1#2q", "0#-_", "5#2"]


def digest(case):
    a, b = case.idx.raw()
    return hashlib.sha256(a).hexdigest(), hashlib.sha256(b).hexdigest(), len(a), len(b)


class C14(Prop):
    ID = "C14"
    RULE = ("cases = Hypothesis histories building an index state, and after EVERY write step a drawn batch of read-only calls "
            "covering every public query (resolution, potential prefix, page/link/network queries, both paginations, "
            "hierarchy, counts, metrics, enumerations, trie lookups) with generated arguments: present and absent LRUs, known "
            "and unknown webentity ids, right/partial/wrong prefix lists, valid and arbitrary tokens, all switch values, and (one "
            "step in four, on-disk) the same index reopened with a SUBSET of its rules and queried below the forgotten anchors; at the end "
            "of each on-disk case the index is also reopened on torn states (block-granularity prefixes of its recorded write log) "
            "and queried; "
            "SHA-256 and length of both stores before == after each call, whatever it returned or raised. non-trivial = a case "
            "in which some call returned a non-empty answer and some call raised TraphException on a non-empty index; "
            "evidence lists calls per API name.")
    MODES = ("url", "mixed")
    LONG_BIAS = 0.2
    BACKENDS = ("file", "memory")
    WEIGHTS = {"page": 3, "pages": 2, "links": 4, "batch": 3, "again": 0, "create": 3, "delete": 1, "addprefix": 2,
               "rmprefix": 1, "move": 1, "rule": 2, "unrule": 1, "reopen": 1}
    QUICK = (40, 14)
    THOROUGH = (150, 30)
    ASSUMPTIONS = ["'a single byte' is observed on the raw store contents (file after flush, or the bytearray)"]

    def begin(self, case):
        # on-disk cases also record their write log, so that TORN states (a program-order prefix of the writes, cut at block
        # granularity: exactly the states C18 says a crash can leave) can be queried at the end of the case
        if case.config.backend == "file":
            from ..crash import Recorder
            rec = Recorder(case.idx.folder)
            case.idx.close()
            case.idx.open(True, dict(case.idx.rules))
            case.state["rec"] = rec
            case.state["all_rules"] = dict(case.config.rules)

    def after_op(self, case, op, out, pre):
        if "all_rules" in case.state:
            case.state["all_rules"].update(case.led.rules)

    def end(self, case):
        rec = case.state.get("rec")
        if rec is None:
            return
        rec.detach()
        import shutil
        import tempfile
        from ..crash import write_folder
        from ..ops import scratch_root
        from ..rules import RULES
        from ..env import Traph
        ctx = case.ctx
        n = len(rec.log)
        cuts = sorted(set(range(max(0, n - 10), n)) | set(range(2, n, 6)))
        lrus = sorted(case.led.closure)[:6]
        scratch = tempfile.mkdtemp(prefix="tv-torn-", dir=scratch_root())
        try:
            for k in cuts:
                trie, link = rec.rebuild(k)
                if len(trie) % 128 or len(link) % 16 or not trie or not link:
                    continue
                write_folder(scratch, trie, link)
                try:
                    t = Traph(folder=scratch, overwrite=False, encoding=case.config.encoding,
                              default_webentity_creation_rule=RULES[case.idx.default_rule],
                              webentity_creation_rules={a: RULES[x] for a, x in case.state["all_rules"].items()})
                except Exception:
                    continue
                try:
                    def dg():
                        t.lru_trie_file.flush()
                        t.link_store_file.flush()
                        with open(t.lru_trie_path, "rb") as f:
                            a_ = f.read()
                        with open(t.link_store_path, "rb") as f:
                            b_ = f.read()
                        return hashlib.sha256(a_).hexdigest(), hashlib.sha256(b_).hexdigest(), len(a_), len(b_)
                    calls = [("count_pages", t.count_pages), ("count_crawled_pages", t.count_crawled_pages),
                             ("metrics", t.metrics), ("pages_iter", lambda: list(t.pages_iter())),
                             ("webentity_prefix_iter", lambda: list(t.webentity_prefix_iter())),
                             ("links_iter", lambda: list(t.links_iter()))]
                    for q in lrus:
                        calls += [("retrieve_webentity", lambda q=q: t.retrieve_webentity(q)),
                                  ("get_potential_prefix", lambda q=q: t.get_potential_prefix(q)),
                                  ("get_page_links", lambda q=q: t.get_page_links(q))]
                    for name, fn in calls:
                        before = dg()
                        try:
                            fn()
                        except Exception as e:
                            if type(e).__module__.startswith("hypothesis"):
                                raise
                        after = dg()
                        ctx.event("call-on-torn-state:" + name)
                        if before != after:
                            ctx.fail("store-modified", "index reopened on the first %d of %d logged writes (a torn state): read-only call %s changed the stores (%d -> %d bytes of trie)"
                                     % (k, n, name, before[2], after[2]), case)
                    ctx.extra["torn_states_queried"] += 1
                finally:
                    t.close()
        finally:
            shutil.rmtree(scratch, ignore_errors=True)

    def draw_probes(self, case, data):
        led = case.led
        clos = sorted(led.closure)
        wes = led.webentities()
        calls = []
        n = data.draw(st.integers(3, 7))
        for _ in range(n):
            name, shape = data.draw(st.sampled_from(QUERIES))
            args = []
            rest = shape
            if rest.startswith("L"):
                rest = rest[1:]
                r = data.draw(st.integers(0, 3))
                if clos and r <= 1:
                    args.append(data.draw(st.sampled_from(clos)))
                elif clos and r == 2:
                    args.append(data.draw(near_miss(data.draw(st.sampled_from(clos)))))
                else:
                    args.append(data.draw(lru_from(case.vocab, clos)))
            if rest.startswith("W"):
                rest = rest[1:]
                r = data.draw(st.integers(0, 5))
                if wes and r <= 3:
                    w = data.draw(st.sampled_from(sorted(wes)))
                    ps = list(wes[w])
                    if r == 3 and len(ps) > 1:
                        ps = ps[:-1]
                    args += [w, ps]
                elif wes and r == 4:
                    w = data.draw(st.sampled_from(sorted(wes)))
                    args += [w + 1000, list(wes[w])]
                else:
                    args += [data.draw(st.integers(1, 50)), [data.draw(lru_from(case.vocab, clos))]]
            while rest:
                c, rest = rest[0], rest[1:]
                if c == "B":
                    args.append(data.draw(st.booleans()))
                elif c == "F":
                    k = int(rest[0])
                    rest = rest[1:]
                    args.append([data.draw(st.booleans()) for _ in range(k)])
                elif c == "K":
                    args.append(data.draw(st.sampled_from([None, 1, 1, 2, 3, 10])))
                elif c == "D":
                    args.append(data.draw(st.sampled_from([None, 0, 1, 2])))
                elif c == "T":
                    args.append(data.draw(st.sampled_from(TOKENS + ["use-last"])))
            calls.append([name] + args)
        probes = [("probe", "queries", calls)]
        if case.config.backend == "file" and led.rules and data.draw(st.integers(0, 3)) == 0:
            # the constructor accepts any rule dict: an index reopened with FEWER rules than its trie has anchors is a reachable
            # state too.  Only read-only calls are issued in that state (the clean tree may raise KeyError there, which is not
            # a modification); afterwards the index is reopened with the full rule set.
            keep = sorted(a for a in sorted(led.rules) if data.draw(st.booleans()))
            below = []
            for a in sorted(led.rules):
                below.append(a + data.draw(st.sampled_from([b"h:zz|p:q|", b"p:a|p:b|p:c|", b"h:a|h:b|p:x|p:y|"])))
            known_below = [l for l in clos if any(l.startswith(a) for a in led.rules)]
            qs = below + (data.draw(st.lists(st.sampled_from(known_below), max_size=3)) if known_below else [])
            probes.append(("probe", "fewer-rules", keep, qs))
        if wes and data.draw(st.integers(0, 5)) == 0:
            # the API accepts any integer as webentity id: attach a prefix to an id far above the counter, then query
            probes.append(("probe", "foreign-id", data.draw(lru_from(case.vocab, clos)), max(led.issued) + data.draw(st.sampled_from([40, 1000]))))
        return probes

    def _invoke(self, case, call):
        t = case.t
        name, args = call[0], list(call[1:])
        shape = dict(QUERIES)[name]
        obj = t
        attr = name
        if name.startswith("lru_trie."):
            obj, attr = t.lru_trie, name.split(".", 1)[1]
        fn = getattr(obj, attr)
        kw = {}
        pos = []
        rest = shape
        if rest.startswith("L"):
            pos.append(args.pop(0))
            rest = rest[1:]
        if rest.startswith("W"):
            pos += [args.pop(0), args.pop(0)]
            rest = rest[1:]
        if name == "get_page_links" or name == "get_webentity_pagelinks":
            f = args.pop(0)
            kw = {"include_inbound": f[0], "include_internal": f[1], "include_outbound": f[2]}
        elif name in ("get_page_indegree", "get_page_outdegree", "get_page_degree"):
            kw = {"weighted": args.pop(0)}
        elif name == "get_webentity_most_linked_pages":
            k = args.pop(0)
            kw = {"pages_count": k if k is not None else 10, "max_depth": args.pop(0)}
        elif name == "paginate_webentity_pages":
            k, tok, co = args
            if tok == "use-last":
                tok = case.state.get("last-token")
            kw = {"page_count": k, "pagination_token": tok, "crawled_only": co}
        elif name == "paginate_webentity_pagelinks":
            f, k, tok = args
            if tok == "use-last":
                tok = case.state.get("last-linktoken")
            kw = {"include_internal": f[0], "include_outbound": f[1], "source_page_count": k, "pagination_token": tok}
        elif name in ("get_webentities_links", "get_webentities_links_slow"):
            kw = {"out": args[0], "include_auto": args[1]}
        elif name in ("get_webentities_inlinks", "get_webentities_outlinks"):
            kw = {"include_auto": args[0]}
        elif name == "links_iter":
            kw = {"out": args[0]}
        res = fn(*pos, **kw)
        if hasattr(res, "__next__") or name.endswith("_iter"):
            res = list(res)
        if isinstance(res, dict) and res.get("token"):
            case.state["last-token" if name == "paginate_webentity_pages" else "last-linktoken"] = res["token"]
        return res

    def run_probe(self, case, pop):
        ctx = case.ctx
        if pop[1] == "fewer-rules":
            return self.fewer_rules(case, [B(a) for a in pop[2]], [B(q) for q in pop[3]])
        if pop[1] == "foreign-id":
            return self.foreign_id(case, pop[2], pop[3])
        for call in pop[2]:
            before = digest(case)
            outcome = "returned-empty"
            try:
                res = self._invoke(case, call)
                if res not in (None, False, [], {}, 0, (), set()) and res != 0.0:
                    outcome = "returned-non-empty"
            except TraphException:
                outcome = "refused"
            except Exception as e:
                if type(e).__module__.startswith("hypothesis"):
                    raise
                outcome = "raised-" + type(e).__name__
            after = digest(case)
            ctx.event("call:" + call[0])
            ctx.event("outcome:" + outcome.split("-")[0] if outcome.startswith("raised") else "outcome:" + outcome)
            if before != after:
                which = "lru_trie.dat" if before[0] != after[0] or before[2] != after[2] else "link_store.dat"
                ctx.fail("store-modified", "read-only call %s%r (%s) changed %s: %d -> %d bytes"
                         % (call[0], tuple(call[1:])[:3], outcome, which, before[2] if which[1] == "r" else before[3],
                            after[2] if which[1] == "r" else after[3]), case)
            if outcome == "returned-non-empty":
                case.flag("non-empty-answer")
            if outcome == "refused" and case.led.closure:
                case.flag("refused-on-non-empty-index")

    def foreign_id(self, case, prefix, weid):
        ctx, t, led = case.ctx, case.t, case.led
        if B(prefix) in led.prefix_map:
            return
        try:
            t.add_prefix_to_webentity(prefix, weid)          # a write (part of building the state), then read-only calls
        except TraphException:
            return
        led.name(B(prefix))
        led.prefix_map[B(prefix)] = weid
        led.issued.append(weid)
        for name in ("metrics", "count_pages", "webentity_prefix_iter", "get_webentities_links", "links_metrics"):
            before = digest(case)
            try:
                r = getattr(t, name)()
                if hasattr(r, "__next__"):
                    list(r)
            except Exception as e:
                if type(e).__module__.startswith("hypothesis"):
                    raise
            after = digest(case)
            ctx.event("call-after-foreign-id:" + name)
            if before != after:
                ctx.fail("store-modified", "after attaching %r to webentity id %r (never issued by the index), read-only call %s changed the stores"
                         % (prefix, weid, name), case)
        case.flag("foreign-id")

    def fewer_rules(self, case, keep, queries):
        ctx, idx = case.ctx, case.idx
        if idx.traph.in_memory or not all(a in idx.rules for a in keep):
            return
        full = dict(idx.rules)
        idx.traph.close()
        idx.traph = None
        try:
            idx.open(False, {a: full[a] for a in keep})
            for name in ("get_potential_prefix", "retrieve_prefix", "retrieve_webentity", "get_webentity_by_prefix", "get_page_links"):
                for q in queries:
                    before = digest(case)
                    outcome = "returned"
                    try:
                        getattr(idx.traph, name)(q)
                    except TraphException:
                        outcome = "refused"
                    except Exception as e:
                        if type(e).__module__.startswith("hypothesis"):
                            raise
                        outcome = "raised " + type(e).__name__
                    after = digest(case)
                    ctx.event("call-with-fewer-rules:" + name)
                    if before != after:
                        ctx.fail("store-modified", "index reopened with rules %r of %r: read-only call %s(%r) (%s) changed the stores"
                                 % (sorted(keep), sorted(full), name, q, outcome), case)
            case.flag("queried-with-fewer-rules")
        finally:
            if idx.traph is not None:
                idx.traph.close()
                idx.traph = None
            idx.open(False, full)

    def nontrivial(self, case):
        return "non-empty-answer" in case.flags and "refused-on-non-empty-index" in case.flags

    # scale probe: a webentity with dozens of pages below one prefix, a child webentity created and deleted again, then every
    # per-webentity query and every global query once, each framed by the digest of both stores
    def extra_checks(self, ctx, tier, seed, shard, nshards):
        if shard not in (2 % nshards, 3 % nshards):
            return
        from ..scale import build
        backend = "file" if shard == 2 % nshards else "memory"
        case = build(_Plain(), ctx, 60, 4, backend=backend)
        try:
            site = b"s:http|h:com|h:s000|"
            extra = [site + b"p:x%02d|" % i for i in range(45)] + [site + b"h:www|p:y%02d|" % i for i in range(40)]
            ops = [("pages", extra, True), ("create", [site + b"p:x01|"]), ("create", [site + b"h:www|p:y03|"])]
            for op in ops:
                out = case.idx.apply(op)
                case.led.apply(op, out)
                case.ops.append(op)
            for w, ps in sorted(case.led.webentities().items()):
                if ps in ([site + b"p:x01|"], [site + b"h:www|p:y03|"]):
                    op = ("delete", w, ps)
                    out = case.idx.apply(op)
                    case.led.apply(op, out)
                    case.ops.append(op)
            wes = case.led.webentities()
            w0 = case.led.prefix_map[site]
            calls = []
            for name, shape in QUERIES:
                if shape.startswith("W"):
                    for ps in (list(wes[w0]), [site], [site + b"h:www|"]):
                        args = [w0, ps]
                        rest = shape[1:]
                        while rest:
                            c, rest = rest[0], rest[1:]
                            if c == "F":
                                k = int(rest[0])
                                rest = rest[1:]
                                args.append([True] * k)
                            elif c == "K":
                                args.append(3)
                            elif c == "D":
                                args.append(None)
                            elif c == "T":
                                args.append(None)
                            elif c == "B":
                                args.append(False)
                        calls.append([name] + args)
                elif shape in ("", "B", "BB"):
                    calls.append([name] + [True] * len(shape))
            case.vocab = None
            self.run_probe(case, ("probe", "queries", calls))
            ctx.extra["scale_probe_calls"] += len(calls)
        finally:
            case.abort()


class _Plain(object):
    """property stand-in for building the scale-probe case without the write-log recorder"""

    def begin(self, case):
        pass


PROP = C14()
