"""C20 Most-linked pages are the true top-k by distinct inbound sources."""
from hypothesis import strategies as st

from ..core import Prop, Case
from ..ops import Config
from ..spec import stems_of
from .. import observe as ob


class C20(Prop):
    ID = "C20"
    RULE = ("cases = Hypothesis histories heavy in links (repeated, self-links) over nested webentities; after EVERY step, for "
            "every enumerated webentity, a drawn k in 1..n+1 and max_depth in {None,0,1,2}: the answer of "
            "get_webentity_most_linked_pages is checked with a VALIDITY predicate (many answers are correct): listed pages are "
            "distinct eligible pages (resolve to the webentity, at most max_depth stems below their prefix), length == min(k, "
            "#eligible), each indegree == number of distinct pages linking to it (itself included), non-increasing, and no "
            "omitted eligible page has a larger indegree than the last listed. non-trivial = >= 2 eligible pages with "
            "different indegrees and k < #eligible.")
    MODES = ("url",)
    LONG_BIAS = 0.2
    BACKENDS = ("file", "file", "memory")
    WEIGHTS = {"page": 3, "pages": 2, "links": 7, "batch": 5, "again": 2, "create": 3, "delete": 1, "addprefix": 2,
               "rmprefix": 1, "move": 1, "rule": 1, "unrule": 0, "reopen": 1, "clear": 1}
    QUICK = (40, 20)
    THOROUGH = (200, 40)
    ASSUMPTIONS = ["relational oracle: pages_iter, retrieve_prefix/webentity and get_page_links of the same index define "
                   "eligibility and indegree", "depth is counted in stems below the queried prefix (prefix itself = 0)",
                   "known finding K1: a page with no inbound link is reported, and ranked, with indegree 1 instead of 0"]

    def draw_probes(self, case, data):
        qs = []
        wes = case.led.webentities()
        for w in sorted(wes):
            n = sum(1 for _ in case.led.pages)
            k = data.draw(st.integers(1, max(1, min(n, 6) + 1)))
            depth = data.draw(st.sampled_from([None, None, 0, 1, 2]))
            qs.append((w, k, depth))
        return [("probe", "most-linked", qs)]

    def run_probe(self, case, pop):
        ctx, t = case.ctx, case.t
        pg, R, P = ob.resolution_of_pages(case)
        wes = ob.enumerated_webentities(case)
        links = ob.all_page_links(case, sorted(pg))
        indeg = {p: 0 for p in pg}
        srcs = {}
        for s, d, w in links:
            srcs.setdefault(d, set()).add(s)
        for d, ss in srcs.items():
            indeg[d] = len(ss)
        for w, k, depth in pop[2]:
            ps = wes.get(w)
            if not ps:
                continue
            elig = []
            for p in pg:
                if R[p] != w:
                    continue
                below = len(stems_of(p)) - len(stems_of(P[p]))
                if depth is not None and below > depth:
                    continue
                elig.append(p)
            got = case.call("get_webentity_most_linked_pages", t.get_webentity_most_linked_pages, w, ob.args(ps),
                            pages_count=k, max_depth=depth)
            lrus = [bytes(g["lru"]) for g in got]
            if len(lrus) != len(set(lrus)):
                ctx.fail("duplicate", "most-linked(%r, k=%d, depth=%r) lists a page twice: %r" % (w, k, depth, lrus), case)
            bad = [l for l in lrus if l not in elig]
            if bad:
                ctx.fail("ineligible", "most-linked(%r, k=%d, depth=%r) lists %r which does not belong to the webentity within the depth limit"
                         % (w, k, depth, bad[:2]), case)
            if len(lrus) != min(k, len(elig)):
                ctx.fail("length", "most-linked(%r, k=%d, depth=%r) lists %d pages, %d are eligible" % (w, k, depth, len(lrus), len(elig)), case)
            eff = {}
            for p in elig:
                eff[p] = indeg[p]
            for g in got:
                p = bytes(g["lru"])
                if g["indegree"] != indeg[p]:
                    if indeg[p] == 0 and g["indegree"] == 1 and ctx.tolerate("K1", "page %r" % p):
                        eff[p] = 1
                        continue
                    ctx.fail("indegree", "most-linked(%r) reports indegree %r for %r, %d distinct pages link to it"
                             % (w, g["indegree"], p, indeg[p]), case)
            # omitted pages compete with their TRUE indegree: under K1 a page nobody links to is ranked as if it had 1, which can
            # only tie with (never beat) a listed page of indegree >= 1, so no extra allowance is needed - and none is made, so
            # that a tree in which K1 has been repaired (zeros reported as 0) raises no alarm either.
            degs = [g["indegree"] for g in got]
            if degs != sorted(degs, reverse=True):
                ctx.fail("order", "most-linked(%r) is not in non-increasing order of indegree: %r" % (w, degs), case)
            if got:
                last = min(degs)
                worse = [p for p in elig if p not in lrus and eff[p] > last]
                if worse:
                    ctx.fail("omitted-larger", "most-linked(%r, k=%d, depth=%r) omits %r (indegree %d) but lists a page with indegree %d"
                             % (w, k, depth, worse[0], eff[worse[0]], last), case)
            if len(set(indeg[p] for p in elig)) >= 2 and k < len(elig):
                case.flag("k<eligible-with-different-indegrees")
            if depth is not None:
                case.flag("depth-limited")

    def nontrivial(self, case):
        return "k<eligible-with-different-indegrees" in case.flags

    def known_repros(self):
        def k1(ctx):
            case = Case(self, ctx, Config(), None)
            try:
                case.idx.apply(("page", b"s:http|h:com|h:a|p:x|", False))
                w = case.t.retrieve_webentity(b"s:http|h:com|h:a|p:x|")
                ps = [p for p, x in ob.prefix_entries(case) if x == w]
                got = case.t.get_webentity_most_linked_pages(w, ps, pages_count=5)
                return [g["indegree"] for g in got] == [1]
            finally:
                case.abort()
        return {"K1": k1}


    # scale probe (tv/scale.py): 320 webentities (ids beyond 256), 1280+ pages, judged once by this property's oracle
    def extra_checks(self, ctx, tier, seed, shard, nshards):
        if shard != 2 % nshards:
            return
        from ..scale import build
        case = build(self, ctx, 320 if tier == "quick" else 700)
        try:
            self.run_probe(case, ("probe", "most-linked", [(w, 2, None) for w in sorted(case.led.webentities())[::9]] + [(300, 3, 1), (257, 1, 0)]))
            # one webentity with more than 2000 nodes below its prefix, indegrees 0..9 spread over its pages
            site = b"s:http|h:com|h:big|"
            pages = [site + b"p:%04d|" % ((i * 7919) % 2100) for i in range(2100)]
            srcs = [b"s:http|h:com|h:src|p:%d|" % i for i in range(10)]
            links = []
            for i, pg_ in enumerate(pages):
                links += [(srcs[j], pg_) for j in range(i % 10)]
            for op in (("pages", pages, False), ("links", links)):
                out = case.idx.apply(op)
                case.led.apply(op, out)
                case.ops.append(op)
            wbig = case.led.prefix_map[site]
            self.run_probe(case, ("probe", "most-linked", [(wbig, 3, None), (wbig, 250, None), (wbig, 1, 1)]))
            ctx.extra["scale_probe_pages"] += len(case.led.pages)
            ctx.extra["scale_probe_webentities"] += len(case.led.webentities())
        finally:
            case.abort()

PROP = C20()
