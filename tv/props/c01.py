"""C01 Page set fidelity: no page lost, invented, duplicated or altered."""
from ..core import Prop
from ..codec import B
from .. import observe as ob
from ..gen import related_in_request


class C01(Prop):
    ID = "C01"
    RULE = ("cases = Hypothesis rule-based histories (<= steps_per_case write requests over a per-case stem vocabulary: "
            "add_page/add_pages/add_links/index_batch_crawl, re-submissions, webentity and rule edits, reopen); after EVERY "
            "step the full page enumeration, count_pages, count_crawled_pages are compared with the ledger of submitted "
            "pages and marks, and each write report's nb_created_pages with the number of ledger-new pages. "
            "non-trivial = the history re-submits a known page AND some request contains a new LRU that extends or is a "
            "sibling of another LRU of the same request; distinct = distinct op sequences (sha1).")
    WEIGHTS = {"page": 4, "pages": 3, "links": 3, "batch": 3, "again": 3, "create": 1, "delete": 1, "addprefix": 1,
               "rmprefix": 1, "move": 1, "rule": 1, "unrule": 1, "reopen": 1, "clear": 1, "recreate": 1}
    LONG_BIAS = 0.3
    BACKENDS = ("file", "file", "memory")
    QUICK = (40, 20)
    THOROUGH = (220, 40)
    TECHNIQUE = ("stateful property-based testing (Hypothesis) against a ledger oracle; thorough tier adds coverage-guided "
                 "fuzzing of histories (atheris/libFuzzer driving Hypothesis' fuzz_one_input)")
    FUZZ_RUNS = 400
    ASSUMPTIONS = ["ledger of submitted pages is the ground truth (built from request inputs only)",
                   "a page is 'marked crawled' by add_page(crawled=True), add_pages(crawled=True) or as the source of a crawl batch"]

    def before_op(self, case, op):
        if op[0] in ("page", "pages", "links", "batch"):
            lrus = case.led.request_lrus(op)
            if related_in_request(case.led.pages, case.led.closure, lrus):
                case.flag("related-new-lru-in-request")
            return {"new": case.led.expected_new_pages(op), "pages_before": dict(case.led.pages),
                    "k2_before": set(case.led.k2_only)}
        return None

    def after_op(self, case, op, out, pre):
        ctx, led = case.ctx, case.led
        if pre is not None and out.status == "ok":
            if out.new_pages != pre["new"]:
                ctx.fail("report-nb-created-pages", "request %r reported nb_created_pages=%r, %d of its pages were new"
                         % (op[0], out.new_pages, pre["new"]), case)
        if pre is not None and out.status != "ok":
            ctx.fail("write-refused", "page/link request %r was refused: %r" % (op[0], out.exc), case)
        self.check_state(case)

    def check_state(self, case):
        ctx, led = case.ctx, case.led
        got = ob.pages(case)
        lrus = [l for l, _ in got]
        if len(lrus) != len(set(lrus)):
            dup = sorted(l for l in set(lrus) if lrus.count(l) > 1)
            ctx.fail("page-duplicated", "enumerated twice: %r" % dup[:3], case)
        gs = dict(got)
        missing = sorted(set(led.pages) - set(gs))
        extra = sorted(set(gs) - set(led.pages))
        if missing:
            ctx.fail("page-lost", "submitted pages not enumerated: %r" % missing[:3], case)
        if extra:
            ctx.fail("page-invented", "enumerated but never submitted (or altered bytes): %r" % extra[:3], case)
        k2 = 0
        for l, c in gs.items():
            want = led.pages[l]
            if c == want:
                continue
            if c and not want and l in led.k2_only and ctx.tolerate("K2", "page %r" % l):
                k2 += 1
                continue
            ctx.fail("crawled-mark", "page %r reported crawled=%r, submissions say %r" % (l, c, want), case)
        n = ob.count_pages(case)
        if n != len(led.pages):
            ctx.fail("count-pages", "count_pages=%r, ledger has %d" % (n, len(led.pages)), case)
        nc = ob.count_crawled(case)
        want_c = sum(1 for v in led.pages.values() if v) + k2
        if nc != want_c:
            ctx.fail("count-crawled", "count_crawled_pages=%r, expected %d" % (nc, want_c), case)

    def nontrivial(self, case):
        return "resubmission" in case.flags and "related-new-lru-in-request" in case.flags

PROP = C01()
