"""C13 Webentity hierarchy queries are exact; pruning never hides a child."""
from ..core import Prop
from ..spec import parents_of_webentity, children_of_webentity, prefixes_of, stems_of
from .. import observe as ob
from .c04 import check_prefix_enumeration


class C13(Prop):
    ID = "C13"
    RULE = ("cases = Hypothesis histories that insert pages first (creating unmarked paths) and then create webentities "
            "explicitly, automatically and by rule installation, add and move prefixes at any depth; after EVERY step, for "
            "every webentity of the ledger, get_webentity_parent_webentities and get_webentity_child_webentities (given its "
            "full prefix list) are compared as sets with the other webentities attached to proper stem-prefixes / proper "
            "extensions of its prefixes. non-trivial = some webentity has a child >= 2 stems below one of its prefixes whose "
            "path pre-existed (as page path) before that child was attached.")
    MODES = ("url",)
    LONG_BIAS = 0.2
    BACKENDS = ("file", "file", "memory")
    WEIGHTS = {"page": 5, "pages": 2, "links": 2, "batch": 2, "again": 0, "create": 4, "delete": 2, "addprefix": 4,
               "rmprefix": 2, "move": 3, "rule": 2, "unrule": 1, "reopen": 1, "clear": 1, "recreate": 1}
    QUICK = (40, 22)
    THOROUGH = (200, 40)
    TECHNIQUE = ("stateful property-based testing (Hypothesis) against a ledger oracle; thorough tier adds coverage-guided "
                 "fuzzing of histories (atheris/libFuzzer driving Hypothesis' fuzz_one_input)")
    FUZZ_RUNS = 400
    ASSUMPTIONS = ["prefix map from the ledger (explicit edits + reported creations) defines the expected hierarchy"]

    def before_op(self, case, op):
        return {"closure": set(case.led.closure), "map": dict(case.led.prefix_map)}

    def after_op(self, case, op, out, pre):
        ctx, led, t = case.ctx, case.led, case.t
        # which newly attached prefixes lie on a path that existed before?
        deep = case.state.setdefault("pre-existing-deep", set())
        for p, w in led.prefix_map.items():
            if pre["map"].get(p) != w and p in pre["closure"]:
                deep.add(p)
        check_prefix_enumeration(case)
        wes = led.webentities()
        for w, ps in sorted(wes.items()):
            ep = parents_of_webentity(led.prefix_map, w)
            ec = children_of_webentity(led.prefix_map, w)
            gp = case.call("get_webentity_parent_webentities", t.get_webentity_parent_webentities, w, ob.args(ps))
            gc = case.call("get_webentity_child_webentities", t.get_webentity_child_webentities, w, ob.args(ps))
            if len(gp) != len(set(gp)) or set(gp) != ep:
                ctx.fail("parents", "parents of webentity %r (prefixes %r): got %r, expected %r" % (w, ps[:3], sorted(gp), sorted(ep)), case)
            if len(gc) != len(set(gc)) or set(gc) != ec:
                ctx.fail("children", "children of webentity %r (prefixes %r): got %r, expected %r" % (w, ps[:3], sorted(gc), sorted(ec)), case)
            for q in deep:
                x = led.prefix_map.get(q)
                if x and x != w:
                    for p in ps:
                        if q.startswith(p) and len(stems_of(q)) - len(stems_of(p)) >= 2:
                            case.flag("deep-child-on-pre-existing-path")

    def nontrivial(self, case):
        return "deep-child-on-pre-existing-path" in case.flags


    # scale probe (tv/scale.py): 320 webentities (ids beyond 256), 1280+ pages, judged once by this property's oracle
    def extra_checks(self, ctx, tier, seed, shard, nshards):
        if shard != 2 % nshards:
            return
        from ..scale import build
        case = build(self, ctx, 320 if tier == "quick" else 700)
        try:
            self.after_op(case, ("links", []), None, {"closure": set(), "map": {}})
            ctx.extra["scale_probe_pages"] += len(case.led.pages)
            ctx.extra["scale_probe_webentities"] += len(case.led.webentities())
        finally:
            case.abort()

PROP = C13()
