"""C11 Close and reopen preserves everything; clear empties everything."""
from hypothesis import strategies as st

from ..core import Prop, Case, HarnessError, _innermost_repo_frame, run_given
from ..ops import Index, Config, op_to_json, op_from_json
from ..lru import vocab as vocab_strategy
from ..gen import config_strategy, op_strategy
from ..codec import B
from .. import observe as ob
from .c15 import compare_outcomes


class C11(Prop):
    ID = "C11"
    TECHNIQUE = "stateful property-based testing (Hypothesis), differential twin histories (never closed vs reopened / cleared)"
    RULE = ("cases = Hypothesis twin histories: every drawn request goes to index A (never closed) and to index B, into whose "
            "history close+reopen (same folder, same rules re-supplied) and clear(default, rules) are inserted at drawn "
            "positions, any number of times; on clear, A is replaced by a freshly created index with those rules. After EVERY "
            "step: identical write reports, identical full observation (tv/observe.snapshot: every query, both paginations of "
            "pages, network, metrics); at every close both files are whole numbers of blocks; reopening changes no byte, and a "
            "second reopen with no request in between changes no byte; raw bytes of the twins are compared as a soft signal "
            "(counted, not a violation by itself). non-trivial = >= 1 reopen with write requests before and after it.")
    MODES = ("url", "mixed", "raw")
    LONG_BIAS = 0.3
    WEIGHTS = {"page": 4, "pages": 2, "links": 3, "batch": 3, "again": 1, "create": 2, "delete": 1, "addprefix": 1,
               "rmprefix": 1, "move": 1, "rule": 2, "unrule": 1, "reopen": 5, "clear": 1, "recreate": 1}
    QUICK = (40, 18)
    THOROUGH = (130, 36)
    ASSUMPTIONS = ["'same rules re-supplied' = the anchored rules currently installed, passed to the constructor on reopen"]

    def begin(self, case):
        twin = Index(case.config.copy())
        case.resources.append(twin)
        case.state["A"] = twin
        case.state["writes"] = 0

    def before_op(self, case, op):
        if op[0] == "reopen" and not case.state.get("blind", 0):
            a, b = case.idx.raw()
            return {"raw": (a, b)}
        return None

    # "blind" steps (see C15): no read, no flush between a request and the close/reopen/clear that follows it
    def draw_probes(self, case, data):
        if data.draw(st.integers(0, 3)) == 0:
            return [("probe", "blind", data.draw(st.sampled_from([1, 1, 2])))]
        return []

    def run_probe(self, case, pop):
        if pop[1] == "blind":
            case.state["blind"] = pop[2]

    def after_op(self, case, op, out, pre):
        ctx = case.ctx
        st = case.state
        A = st["A"]
        kind = op[0]
        blind = st.get("blind", 0) > 0
        if blind:
            st["blind"] -= 1
            case.flag("unobserved-step")
        if kind == "reopen" and pre is None:
            if out.status != "ok":
                ctx.fail("reopen-refused", "reopening an index that was closed cleanly failed: %r" % (out.exc,), case)
            if st["writes"]:
                st["reopen-after-writes"] = True
        elif kind == "reopen":
            if out.status != "ok":
                ctx.fail("reopen-refused", "reopening an index that was closed cleanly failed: %r" % (out.exc,), case)
            a0, b0 = pre["raw"]
            if len(a0) % 128 or len(b0) % 16:
                ctx.fail("partial-block-at-close", "files at close: %d / %d bytes" % (len(a0), len(b0)), case)
            a1, b1 = case.idx.raw()
            if (a0, b0) != (a1, b1):
                ctx.fail("reopen-changes-bytes", "close + reopen changed the stores (%d->%d, %d->%d bytes)"
                         % (len(a0), len(a1), len(b0), len(b1)), case)
            case.idx.reopen()
            a2, b2 = case.idx.raw()
            if (a0, b0) != (a2, b2):
                ctx.fail("reopen-changes-bytes", "a second close + reopen with no request in between changed the stores", case)
            if st["writes"]:
                st["reopen-after-writes"] = True
        elif kind in ("clear", "recreate"):
            if out.status != "ok":
                ctx.fail("clear-failed", "%s refused: %r" % (kind, out.exc), case)
            A.destroy()
            case.resources.remove(A)
            if kind == "clear":
                new_default, new_rules = op[1], {a: n for a, n in op[2]}
            else:
                # constructing again on the populated folder with overwrite=True: must equal a fresh index with the same rules
                new_default, new_rules = case.idx.default_rule, {case.idx.rule_keys.get(a, a): n for a, n in case.idx.rules.items()}
            A = Index(Config(backend="file", overwrite=True, default_rule=new_default, rules=new_rules,
                             encoding=case.config.encoding))
            case.resources.append(A)
            st["A"] = A
            case.flag("clear")
        else:
            out2 = A.apply(op)
            if out2.status == "error":
                fr = _innermost_repo_frame(out2.exc.__traceback__)
                if fr is None:
                    raise HarnessError("twin op %r: %r\n%s" % (op[0], out2.exc, out2.tb))
                ctx.fail("exception", "request %s on the never-closed index raised %r" % (op[0], out2.exc), case)
            compare_outcomes(ctx, case, op, out2, out, "never-closed", "reopened/cleared")
            st["writes"] += 1
            if st.get("reopen-after-writes"):
                case.flag("reopen-with-writes-before-and-after")
            if st.get("cleared"):
                case.flag("writes-after-clear")
        if kind in ("clear", "recreate"):
            st["cleared"] = True
        if blind:
            return
        lrus = sorted(case.led.closure)
        sa = case.call("observation of the never-closed index", ob.snapshot, A.traph, lrus)
        sb = case.call("observation of the reopened index", ob.snapshot, case.t, lrus)
        d = ob.diff_snapshots(sa, sb)
        if d:
            ctx.fail("observation", "never-closed vs reopened/cleared index answer differently: %s" % d, case)
        if A.raw() != case.idx.raw():
            ctx.event("byte_diff_without_observable_diff")

    def nontrivial(self, case):
        return "reopen-with-writes-before-and-after" in case.flags

    # -- "close/reopen inserted at EVERY position of it": exhaustive over positions for drawn histories -------------------
    EXHAUSTIVE_KEYS = ("reopen_positions",)

    def extra_checks(self, ctx, tier, seed, shard, nshards):
        n_hist = 3 if tier == "quick" else 40

        def one(data):
            v = data.draw(vocab_strategy(modes=self.MODES, long_bias=0.3))
            cfg = data.draw(config_strategy(v))
            w = dict(self.weights())
            w["reopen"] = 0
            w["clear"] = 0
            w["recreate"] = 0
            # draw the history once, against a scratch index
            base = _PlainCase(self, ctx, cfg, v)
            try:
                for _ in range(data.draw(st.integers(3, 10 if tier == "quick" else 16))):
                    base.step(data.draw(op_strategy(v, base.led, w, cfg.backend, base.ops)))
                ops = [op_to_json(o) for o in base.ops]
                lrus = sorted(base.led.closure)
                ref = base.call("observation", ob.snapshot, base.t, lrus)
                ref_raw = base.idx.raw()
            finally:
                base.abort()
            # the same history with one (and with two consecutive) close/reopen at every position
            for pos in range(len(ops) + 1):
                for times in (1, 2):
                    c = _PlainCase(self, ctx, Config.from_json(cfg.to_json()), None)
                    try:
                        for i, j in enumerate(ops):
                            if i == pos:
                                for _ in range(times):
                                    c.step(("reopen",))
                            c.step(op_from_json(j))
                        if pos == len(ops):
                            for _ in range(times):
                                c.step(("reopen",))
                        got = c.call("observation", ob.snapshot, c.t, lrus)
                        d = ob.diff_snapshots(ref, got)
                        if d:
                            ctx.fail("reopen-at-position", "history of %d requests with %d close/reopen inserted before request %d answers differently from the never-closed run: %s"
                                     % (len(ops), times, pos, d), c)
                        if c.idx.raw() != ref_raw:
                            ctx.event("byte_diff_without_observable_diff")
                        ctx.extra["reopen_positions"] += 1
                        ctx.record_case(c.ops, ["reopen-at-every-position"], 0 < pos < len(ops))
                    finally:
                        c.abort()

        run_given(seed * 1000 + 400 + shard, n_hist, st.data(), one)


class _PlainCase(Case):
    """a case without the twin (used by the every-position enumeration)"""

    def __init__(self, prop, ctx, config, vocab):
        self._plain = True
        Case.__init__(self, _NoTwin(prop), ctx, config, vocab)


class _NoTwin(object):
    def __init__(self, prop):
        self.prop = prop

    def begin(self, case):
        pass

    def before_op(self, case, op):
        return None

    def after_op(self, case, op, out, pre):
        pass

    def error_ok(self, case, op, out):
        return False

    def end(self, case):
        pass


PROP = C11()
