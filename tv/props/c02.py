"""C02 Stored LRUs stay findable and read back byte-identical, any stem length."""
import itertools

from hypothesis import strategies as st

from ..core import Prop, Case
from ..ops import Config
from ..spec import stems_of
from .. import observe as ob
from .. import fsck
from ..env import TraphException


@st.composite
def near_miss(draw, lru):
    """an LRU one small edit away from `lru` (usually absent from the index)"""
    sts = stems_of(lru)
    i = draw(st.sampled_from([len(sts) - 1, len(sts) - 1, draw(st.integers(0, len(sts) - 1))]))
    stem = sts[i]
    body = stem[:-1]
    kind = draw(st.sampled_from(["flip", "flip", "drop", "add", "ext", "trunc74", "cut"]))
    if kind == "flip" and body:
        cands = sorted({0, len(body) - 1} | {p for p in (72, 73, 74, 75, 147, 148) if p < len(body)})
        p = draw(st.sampled_from(cands))
        c = (body[p] + 1) % 256
        if c == 0x7C:
            c += 1
        nb = body[:p] + bytes([c]) + body[p + 1:]
    elif kind == "drop" and body:
        nb = body[:-1]
    elif kind == "add":
        nb = body + draw(st.sampled_from([b"a", b"\x00", b"\xff", b"}"]))
    elif kind == "trunc74" and len(stem) > 75:
        nb = stem[:74]
    elif kind == "cut" and len(sts) > 1:
        return b"".join(sts[:i]) + stem[:-1][:max(0, len(body) // 2)] + b"|"
    else:
        return lru + b"zz-absent|"
    return b"".join(sts[:i]) + nb + b"|" + b"".join(sts[i + 1:])


class C02(Prop):
    ID = "C02"
    RULE = ("cases = Hypothesis histories biased to raw byte stems at block-payload boundary lengths (73,74,75,147,148,149,...) "
            "and long common heads; after EVERY step each LRU of the ledger closure is looked up top-down (lru_node), rebuilt "
            "bottom-up (windup_lru) and found exactly once in the full traversal (dfs_iter), the traversal set must equal the "
            "closure, near-miss LRUs (one byte flipped/dropped/added, cut at byte 74, unknown extension) must be absent unless "
            "the ledger contains them, and a raw-bytes fsck checks the ternary-search-tree invariants. Plus an exhaustive "
            "sub-check: every insertion order of every 4-subset of 6 sibling stems sharing their first 74 bytes. "
            "non-trivial = the history holds a stem > 74 bytes AND (a sibling set of >= 3 OR two sibling stems equal on their "
            "first 74 bytes).")
    MODES = ("raw", "raw", "mixed", "url")
    LONG_BIAS = 0.5
    BACKENDS = ("file", "file", "memory")
    WEIGHTS = {"page": 5, "pages": 3, "links": 3, "batch": 2, "again": 1, "create": 2, "delete": 1, "addprefix": 1,
               "rmprefix": 1, "move": 0, "rule": 1, "unrule": 0, "reopen": 1, "clear": 1, "recreate": 1}
    QUICK = (40, 18)
    THOROUGH = (200, 40)
    EXHAUSTIVE_KEYS = ("permutation_histories",)
    TECHNIQUE = ("stateful property-based testing (Hypothesis) against a ledger oracle; thorough tier adds coverage-guided "
                 "fuzzing of histories (atheris/libFuzzer driving Hypothesis' fuzz_one_input)")
    FUZZ_RUNS = 400
    ASSUMPTIONS = ["closure = stem-prefixes of every LRU named in a write request or listed in a write report",
                   "fsck parses the files with its own struct code (format 75pBI6Q / QQ as documented in the repository)"]

    def draw_probes(self, case, data):
        clos = sorted(case.led.closure)
        if not clos:
            return []
        qs = []
        for _ in range(data.draw(st.integers(1, 3))):
            base = data.draw(st.sampled_from(clos))
            qs.append(data.draw(near_miss(base)))
        return [("probe", "lookup", qs)]

    def run_probe(self, case, pop):
        ctx, led, t = case.ctx, case.led, case.t
        for q in pop[2]:
            node = case.call("lru_node", t.lru_trie.lru_node, q)
            if q in led.closure:
                if node is None:
                    ctx.fail("lookup-lost", "known LRU %r not found" % q, case)
                continue
            case.flag("absent-probe")
            if node is not None:
                ctx.fail("lookup-phantom", "LRU %r was never named, yet lru_node finds block %r (stem %r...)"
                         % (q, node.block, node.stem()[:30]), case)
            try:
                w = case.call_may_refuse("get_webentity_by_prefix", t.get_webentity_by_prefix, q)
                ctx.fail("lookup-phantom", "get_webentity_by_prefix(%r) returned %r for an absent LRU" % (q, w), case)
            except TraphException:
                pass

    def after_op(self, case, op, out, pre):
        self.check_state(case)

    def check_state(self, case):
        ctx, led, t = case.ctx, case.led, case.t
        trie = t.lru_trie
        dfs = ob.dfs_lrus(case)
        if len(dfs) != len(set(dfs)):
            dup = sorted(l for l in set(dfs) if dfs.count(l) > 1)
            ctx.fail("traversal-duplicate", "dfs_iter yields %r more than once" % dup[:2], case)
        ds = set(dfs)
        if ds != led.closure:
            miss = sorted(led.closure - ds)
            extra = sorted(ds - led.closure)
            ctx.fail("traversal-set", "dfs_iter misses %r, invents %r" % (miss[:2], extra[:2]), case)
        for L in sorted(led.closure):
            node = case.call("lru_node", trie.lru_node, L)
            if node is None:
                ctx.fail("lookup-lost", "LRU %r was named in a write request but lru_node returns nothing" % L, case)
            last = stems_of(L)[-1]
            if bytes(node.stem()) != last:
                ctx.fail("lookup-stem", "lru_node(%r) lands on a node whose stem is %r" % (L, node.stem()), case)
            back = case.call("windup_lru", trie.windup_lru, node.block)
            if bytes(back) != L:
                ctx.fail("windup", "windup_lru(block %d) gives %r for %r" % (node.block, back, L), case)
        a, b = case.idx.raw()
        errs, info = fsck.check(a, b)
        if errs:
            ctx.fail("fsck:" + errs[0][0], "; ".join(e[1] for e in errs[:4]), case)
        if set(info["lrus"].values()) != led.closure:
            ctx.fail("fsck:lru-set", "raw-bytes walk finds %d LRUs, ledger closure has %d"
                     % (len(info["lrus"]), len(led.closure)), case)
        # classification
        sib = {}
        for L in led.closure:
            sts = stems_of(L)
            sib.setdefault(b"".join(sts[:-1]), []).append(sts[-1])
            if len(sts[-1]) > 74:
                case.flag("long-stem")
            if len(sts[-1]) % 74 == 0:
                case.flag("stem-at-exact-multiple")
        for par, ss in sib.items():
            if len(ss) >= 3:
                case.flag("sibling-set>=3")
            heads = [s[:74] for s in ss if len(s) > 74]
            if len(heads) != len(set(heads)):
                case.flag("siblings-equal-on-74")

    def nontrivial(self, case):
        f = case.flags
        return "long-stem" in f and ("sibling-set>=3" in f or "siblings-equal-on-74" in f)

    # exhaustive permutation sub-check --------------------------------------------------------------------
    STEMS6 = None

    def _stems6(self):
        head = b"h" * 74
        return [head + b"|"[:0] + x + b"|" for x in (b"", b"a", b"b", b"a" * 73 + b"z", b"a" * 74, b"a" * 75)] + []

    def extreme(self, ctx):
        """fixed extreme inputs: an LRU 300 stems deep, a stem of 40 blocks, the first byte values around '|'"""
        case = Case(self, ctx, Config(backend="memory"), None)
        try:
            case.step(("page", b"r|" + b"d|" * 300, False))
            case.step(("page", b"r|" + b"x" * 2960 + b"|" + b"y|", True))
            case.step(("pages", [b"r|" + bytes([c]) + b"|" for c in (0x00, 0x7B, 0x7D, 0x7E, 0xFF, 0x0A)], False))
            ctx.extra["extreme_inputs"] += 1
        finally:
            case.abort()

    def extra_checks(self, ctx, tier, seed, shard, nshards):
        if shard == 3 % nshards:
            self.extreme(ctx)
        # 6 sibling stems: first 74 bytes equal ("hhh...h"), total lengths 75,76,76,149,150,151 (with '|'), minus one
        head = b"h" * 73
        six = [head + b"|",                      # 74 bytes: exactly one block
               head + b"h|",                     # 75
               head + b"ha|",                    # 76
               head + b"hb|",                    # 76
               head + b"h" + b"a" * 73 + b"|",   # 148: head + one full tail block
               head + b"h" + b"a" * 74 + b"|"]   # 149
        items = []
        for sub in itertools.combinations(range(6), 4):
            for perm in itertools.permutations(sub):
                items.append(perm)
        for k, perm in enumerate(items):
            if k % nshards != shard:
                continue
            case = Case(self, ctx, Config(), None)
            try:
                for i in perm:
                    case.step(("page", b"r|" + six[i], False))
                # absent: the two not inserted
                for i in range(6):
                    if i not in perm:
                        self.run_probe(case, ("probe", "lookup", [b"r|" + six[i]]))
                ctx.extra["permutation_histories"] += 1
            finally:
                case.abort()


PROP = C02()
