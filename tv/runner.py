"""Command line:  python -m tv.runner <ID> [--tier quick|thorough] [--replay FILE] [--shards N] [--cases N] [--steps N]

Exit codes: 0 property held on everything explored (known findings are printed as KNOWN-FINDING lines),
            1 a violation was found (line `VIOLATION property=<ID> replay=<path>`),
            2 harness error (never a VIOLATION line).
"""
import argparse
import importlib
import json
import multiprocessing
import os
import signal
import sys
import time
import traceback

HERE = os.path.realpath(os.path.join(os.path.dirname(__file__), ".."))
KNOWN_FILE = os.path.join(HERE, "known_findings.json")
NSHARDS = 16


def load_known(prop_id):
    if not os.path.isfile(KNOWN_FILE):
        return {}
    with open(KNOWN_FILE) as f:
        entries = json.load(f)["findings"]
    return {e["id"]: e for e in entries if e.get("status") == "open" and prop_id in e.get("properties", [e.get("property")])}


def load_prop(prop_id):
    mod = importlib.import_module("tv.props." + prop_id.lower())
    return mod.PROP


def _worker(args):
    prop_id, tier, seed, shard, nshards, cases, steps, shrink = args
    t0 = time.time()
    try:
        import faulthandler
        import signal
        faulthandler.register(signal.SIGUSR1, all_threads=True)     # kill -USR1 <pid> prints where a shard is
    except Exception:
        pass
    try:
        # a shard never outlives its runner: it is killed when the parent dies, and by an alarm past the wall-clock limit
        if multiprocessing.current_process().name != "MainProcess":
            import ctypes
            ctypes.CDLL("libc.so.6", use_errno=True).prctl(1, signal.SIGKILL)      # PR_SET_PDEATHSIG
            if os.getppid() == 1:
                os._exit(2)
            signal.alarm(int(float(os.environ.get("TV_SHARD_TIMEOUT", "1500" if tier == "quick" else "10800"))) + 300)
    except Exception:
        pass
    res = {"shard": shard, "violation": None, "error": None}
    try:
        from . import env  # noqa: F401
        from .core import Ctx, Violation, HarnessError, run_machine, minimize
        prop = load_prop(prop_id)
        known = load_known(prop_id)
        ctx = Ctx(prop_id, tier, known)
        try:
            if cases > 0 and not getattr(prop, "NO_MACHINE", False):
                run_machine(prop, ctx, seed * 1000 + shard, cases, steps, shrink=shrink)
            prop.extra_checks(ctx, tier, seed, shard, nshards)
            if tier == "thorough" and getattr(prop, "FUZZ_RUNS", 0) and cases > 0:
                _fuzz_phase(prop, ctx, prop_id, seed, shard)
        except Violation as v:
            v = ctx.last_violation or v
            rep = {"property": prop_id, "clause": v.clause, "detail": str(v.detail)[:4000], "seed": seed,
                   "shard": shard, "tier": tier, "config": v.config, "ops": v.ops, "minimized": False}
            if not getattr(v, "minimize", True):
                rep["custom"] = "fixed-probe"
                rep["ops"] = (v.ops or [])[-3:]
                rep["note"] = "found by a fixed (scale) probe of this check; --replay re-runs the probe of that shard"
            elif v.ops is not None and getattr(prop, "MINIMIZE", True):
                try:
                    cfg = dict(v.config)
                    ops, evals, ok = minimize(prop, cfg, v.ops, v.clause, known, budget=(150 if tier == "quick" else 400))
                    if ok:
                        rep["ops"], rep["config"], rep["minimized"], rep["minimize_evals"] = ops, cfg, True, evals
                except Exception:
                    rep["minimize_error"] = traceback.format_exc()
            res["violation"] = rep
        except HarnessError:
            res["error"] = traceback.format_exc()
        except BaseException as e:
            # anything else escaping Hypothesis: decide whether it is ours or theirs
            v = ctx.last_violation
            if v is not None and isinstance(e, Exception) and "Flaky" in type(e).__name__:
                res["error"] = "flaky: " + traceback.format_exc()
            else:
                res["error"] = traceback.format_exc()
        res.update(ctx.result())
    except BaseException:
        res["error"] = traceback.format_exc()
    res["wall_s"] = time.time() - t0
    return res


def _fuzz_phase(prop, ctx, prop_id, seed, shard):
    """coverage-guided fuzzing of histories (tv/fuzz.py) in a child process; its counts are merged into this shard's"""
    import shutil
    import subprocess
    import tempfile
    from .core import Violation
    from .ops import scratch_root
    out = tempfile.mkdtemp(prefix="tv-fuzz-", dir=scratch_root())
    try:
        try:
            import atheris  # noqa: F401
        except Exception:
            ctx.event("fuzz:unavailable")
            return
        cmd = [sys.executable, "-m", "tv.fuzz", prop_id, str(prop.FUZZ_RUNS), str(seed * 1000 + shard), out]
        r = subprocess.run(cmd, cwd=HERE, capture_output=True, text=True, timeout=3600)
        res = {}
        if os.path.isfile(os.path.join(out, "result.json")):
            with open(os.path.join(out, "result.json")) as f:
                res = json.load(f)
        ctx.evaluations += res.get("evaluations", 0)
        ctx.nontrivial.update(res.get("nontrivial", []))
        ctx.extra["fuzz_execs"] += res.get("execs", 0)
        ctx.extra["fuzz_histories"] += res.get("evaluations", 0)
        for k, v in res.get("events", {}).items():
            ctx.events[k] += v
        for k, v in res.get("known_hits", {}).items():
            ctx.known_hits[k] += v
        vp = os.path.join(out, "violation.json")
        if os.path.isfile(vp):
            with open(vp) as f:
                rep = json.load(f)
            v = Violation(prop_id, rep["clause"], rep["detail"], ops=rep["ops"], config=rep["config"])
            ctx.last_violation = v
            raise v
        if r.returncode not in (0,):
            from .core import HarnessError
            raise HarnessError("fuzz phase exited with %d\n%s" % (r.returncode, r.stderr[-1500:]))
    finally:
        shutil.rmtree(out, ignore_errors=True)


def write_replay(rep):
    d = os.path.join(HERE, "replays")
    os.makedirs(d, exist_ok=True)
    path = os.path.join(d, "%s-seed%d-shard%d.json" % (rep["property"], rep["seed"], rep["shard"]))
    with open(path, "w") as f:
        json.dump(rep, f, indent=1, sort_keys=True)
    return path


def do_replay(prop_id, path):
    from . import env  # noqa: F401
    from .core import Ctx, Violation, HarnessError, replay
    prop = load_prop(prop_id)
    with open(path) as f:
        rep = json.load(f)
    ctx = Ctx(prop_id, "replay", load_known(prop_id))
    try:
        if rep.get("custom"):
            prop.replay_custom(ctx, rep)
        else:
            replay(prop, ctx, rep["config"], rep["ops"])
    except Violation as v:
        print("clause: %s" % v.clause)
        print("detail: %s" % (str(v.detail)[:3000],))
        print("VIOLATION property=%s replay=%s" % (prop_id, path))
        return 1
    except HarnessError:
        traceback.print_exc()
        return 2
    print("replay passes: property=%s replay=%s" % (prop_id, path))
    return 0


def _sweep_stale_scratch(max_age_s=3 * 3600):
    """best effort: scratch index folders of runs that were killed (tv-*, older than three hours) are removed"""
    import shutil
    import tempfile
    for root in ("/dev/shm", tempfile.gettempdir()):
        try:
            for name in os.listdir(root):
                if name.startswith(("tv-", "tv-cut-", "tv-torn-", "tv-fuzz-")):
                    p = os.path.join(root, name)
                    try:
                        if os.path.isdir(p) and time.time() - os.path.getmtime(p) > max_age_s:
                            shutil.rmtree(p, ignore_errors=True)
                    except OSError:
                        pass
        except OSError:
            pass


def main(argv=None):
    ap = argparse.ArgumentParser()
    ap.add_argument("prop")
    ap.add_argument("--tier", default=os.environ.get("VERIF_TIER", "quick"), choices=["quick", "thorough"])
    ap.add_argument("--replay")
    ap.add_argument("--shards", type=int, default=NSHARDS)
    ap.add_argument("--cases", type=int)
    ap.add_argument("--steps", type=int)
    ap.add_argument("--shrink", action="store_true")
    ap.add_argument("--no-evidence", action="store_true")
    a = ap.parse_args(argv)
    prop_id = a.prop.upper()
    try:
        seed = int(os.environ.get("VERIF_SEED", "1"))
    except ValueError:
        seed = 1

    if a.replay:
        return do_replay(prop_id, a.replay)

    t0 = time.time()
    _sweep_stale_scratch()
    os.environ["TV_TIER"] = a.tier      # generators deepen their bounds in the thorough tier (tv/lru.py)
    from . import env  # noqa: F401
    from .core import Ctx
    prop = load_prop(prop_id)
    known = load_known(prop_id)
    cases, steps = prop.QUICK if a.tier == "quick" else prop.THOROUGH
    if a.cases is not None:
        cases = a.cases
    if a.steps is not None:
        steps = a.steps

    # 1. the recorded inputs of the open known findings: do they still fail?
    kf_lines = []
    kf_still = {}
    repro_ctx = Ctx(prop_id, a.tier, known)
    repros = prop.known_repros()
    for kid, entry in sorted(known.items()):
        fn = repros.get(kid)
        still = None
        if fn is not None:
            try:
                still = bool(fn(repro_ctx))
            except Exception:
                traceback.print_exc()
                print("HARNESS-ERROR: known-finding reproducer %s failed" % kid)
                return 2
        kf_still[kid] = still
        if still:
            kf_lines.append("KNOWN-FINDING: property=%s %s: %s" % (prop_id, kid, entry["what"]))

    # 1b. replay tier: saved inputs of past failures (plain regression checks that bypass Hypothesis)
    import glob
    from .core import Violation, HarnessError, replay
    regress_failed = []
    n_regress = 0
    for path in sorted(glob.glob(os.path.join(HERE, "regress", prop_id + "-*.json"))):
        with open(path) as f:
            rep = json.load(f)
        n_regress += 1
        try:
            rctx = Ctx(prop_id, a.tier, known)
            if rep.get("custom"):
                prop.replay_custom(rctx, rep)
            else:
                replay(prop, rctx, rep["config"], rep["ops"])
        except Violation as v:
            regress_failed.append((path, v))
        except HarnessError:
            traceback.print_exc()
            print("HARNESS-ERROR: regression replay %s" % path)
            return 2

    # 2. generated search, sharded
    jobs = [(prop_id, a.tier, seed, i, a.shards, cases, steps, a.shrink or a.tier == "thorough") for i in range(a.shards)]
    if a.shards == 1:
        results = [_worker(jobs[0])]
    else:
        # a wall-clock limit only ever turns a hung shard into a harness error (exit 2), never into a verdict
        limit = float(os.environ.get("TV_SHARD_TIMEOUT", "1500" if a.tier == "quick" else "10800"))
        with multiprocessing.get_context("fork").Pool(min(a.shards, os.cpu_count() or 1)) as pool:
            try:
                results = pool.map_async(_worker, jobs, chunksize=1).get(timeout=limit)
            except multiprocessing.TimeoutError:
                pool.terminate()
                print("HARNESS-ERROR: property=%s a shard did not finish within %.0f s (inconclusive)" % (prop_id, limit))
                return 2

    errors = [r for r in results if r.get("error")]
    violations = [r["violation"] for r in results if r.get("violation")]
    if errors and not violations:
        for r in errors:
            sys.stderr.write("shard %d:\n%s\n" % (r["shard"], r["error"]))
        print("HARNESS-ERROR: property=%s (%d shard(s) failed inside the harness)" % (prop_id, len(errors)))
        return 2

    # 3. aggregate
    nontrivial = set()
    events = {}
    known_hits = {}
    known_examples = {}
    extra = {}
    samples = []
    evaluations = 0
    distinct = 0
    skipped = 0
    for r in results:
        evaluations += r.get("evaluations", 0)
        distinct += r.get("distinct", 0)
        skipped += r.get("skipped_ops", 0)
        nontrivial.update(r.get("nontrivial", []))
        for k, v in r.get("events", {}).items():
            events[k] = events.get(k, 0) + v
        for k, v in r.get("extra", {}).items():
            extra[k] = extra.get(k, 0) + v
        for k, v in r.get("known_hits", {}).items():
            known_hits[k] = known_hits.get(k, 0) + v
        for k, v in r.get("known_examples", {}).items():
            known_examples.setdefault(k, v)
        for s in r.get("samples", []):
            if len(samples) < 4:
                samples.append(s)
    for kid, n in sorted(known_hits.items()):
        if not kf_still.get(kid):
            kf_lines.append("KNOWN-FINDING: property=%s %s: %s" % (prop_id, kid, known[kid]["what"]))
            kf_still[kid] = True
    for line in kf_lines:
        print(line)

    wall = time.time() - t0
    ev = {
        "property_id": prop_id,
        "tier": a.tier,
        "seed": seed,
        "level": prop.LEVEL,
        "coverage": {
            "evaluations": evaluations,
            "distinct_nontrivial": len(nontrivial),
            "distinct_cases": distinct,
            "rule": prop.RULE,
            "samples": samples,
            "classification": {k: events[k] for k in sorted(events)},
            "known_finding_hits": known_hits,
            "known_finding_examples": known_examples,
            "known_findings_still_failing": {k: bool(v) for k, v in kf_still.items()},
            "shards": a.shards,
            "cases_per_shard": cases,
            "steps_per_case": steps,
            "skipped_ops": skipped,
            "regression_replays": n_regress,
        },
        "assumptions": list(prop.ASSUMPTIONS),
        "wall_s": round(wall, 2),
        "violations": len(violations) + len(regress_failed),
    }
    ev["coverage"].update(extra)
    if getattr(prop, "EXHAUSTIVE_KEYS", None):
        ev["coverage"]["exhaustive"] = all(extra.get(k, 0) > 0 for k in prop.EXHAUSTIVE_KEYS)
    if errors:
        ev["coverage"]["harness_errors"] = len(errors)
    if not a.no_evidence:
        os.makedirs(os.path.join(HERE, "evidence"), exist_ok=True)
        with open(os.path.join(HERE, "evidence", prop_id + ".json"), "w") as f:
            json.dump(ev, f, indent=1, sort_keys=True)

    print("%s tier=%s seed=%d: %d cases (%d distinct non-trivial), %.1fs, violations=%d" % (
        prop_id, a.tier, seed, evaluations, len(nontrivial), wall, len(violations)))
    for path, v in regress_failed:
        print("clause: %s\ndetail: %s" % (v.clause, str(v.detail)[:1500]))
        print("VIOLATION property=%s replay=%s" % (prop_id, os.path.relpath(path, HERE)))
    if regress_failed and not violations:
        return 1
    if violations:
        violations.sort(key=lambda r: (len(r.get("ops") or []), r["shard"]))
        seen_clauses = set()
        first_path = None
        for rep in violations:
            if rep["clause"] in seen_clauses:
                continue
            seen_clauses.add(rep["clause"])
            path = write_replay(rep)
            first_path = first_path or path
            print("clause: %s\ndetail: %s" % (rep["clause"], rep["detail"][:1500]))
            print("VIOLATION property=%s replay=%s" % (prop_id, os.path.relpath(path, HERE)))
        return 1
    return 0


if __name__ == "__main__":
    try:
        rc = main()
    except SystemExit:
        raise
    except BaseException:
        traceback.print_exc()
        print("HARNESS-ERROR")
        rc = 2
    sys.exit(rc)
