"""Observation layer: reads the real index through its public API only (plus the LRUTrie access paths that C02 names).
Every call goes through Case.call so that an exception inside the tree under test becomes a violation of the
property being checked and an exception in the harness stays a harness error."""
from collections import Counter

from .env import TraphException


def arg(lru):
    """the API accepts LRUs as bytes or as text; queries pass a deterministic quarter of the LRUs as text (those whose
    length is a multiple of 4 and that round-trip through the index's encoding).  A pure function of the LRU: no RNG."""
    from .codec import ENCODING
    if isinstance(lru, bytes) and len(lru) % 4 == 0:
        try:
            t = lru.decode(ENCODING[0])
            if t.encode(ENCODING[0]) == lru:
                return t
        except UnicodeError:
            pass
    return lru


def args(lrus):
    return [arg(l) for l in lrus]


def pages(case):
    """[(lru, crawled)] in enumeration order (duplicates preserved)"""
    return case.call("pages_iter", lambda: [(bytes(l), bool(n.is_crawled())) for n, l in case.t.pages_iter()])


def count_pages(case):
    return case.call("count_pages", case.t.count_pages)


def count_crawled(case):
    return case.call("count_crawled_pages", case.t.count_crawled_pages)


def count_links(case):
    return case.call("count_links", case.t.count_links)


def dfs_lrus(case):
    return case.call("dfs_iter", lambda: [bytes(l) for n, l in case.t.lru_trie.dfs_iter()])


def prefix_entries(case):
    """[(prefix, weid)] as enumerated"""
    return case.call("webentity_prefix_iter",
                     lambda: [(bytes(l), n.webentity()) for n, l in case.t.webentity_prefix_iter()])


def resolve(case, lru):
    """(weid, prefix) or (None, None); both resolution calls must agree on success/failure"""
    def f():
        try:
            w = case.t.retrieve_webentity(arg(lru))
        except TraphException:
            w = None
        try:
            p = case.t.retrieve_prefix(arg(lru))
        except TraphException:
            p = None
        return w, (bytes(p) if p else None)
    return case.call("retrieve_webentity/prefix", f)


def page_links(case, lru, **kw):
    return case.call("get_page_links", lambda: [(bytes(s), bytes(t), w) for s, t, w in case.t.get_page_links(arg(lru), **kw)])


def links_iter(case, out):
    return case.call("links_iter", lambda: [(bytes(a), bytes(b)) for a, b in case.t.links_iter(out=out)])


def link_counter_from_pages(case, page_lrus):
    """Counter[(s,t)] rebuilt from the OUTBOUND+INTERNAL side of get_page_links of every page"""
    c = Counter()
    for p in page_lrus:
        for s, t, w in page_links(case, p, include_inbound=False):
            c[(s, t)] += w
    return c


class _Lazy(dict):
    """resolution table that also answers for LRUs the page enumeration did not list (a link end that a broken index no
    longer enumerates must not crash the oracle: it is resolved on demand)"""

    def __init__(self, case, which):
        dict.__init__(self)
        self._case = case
        self._which = which

    def __missing__(self, lru):
        v = resolve(self._case, lru)[self._which]
        self[lru] = v
        return v


def resolution_of_pages(case):
    """(pages dict lru->crawled as enumerated, R: lru->weid or None, P: lru->prefix or None)"""
    pg = pages(case)
    R, P = _Lazy(case, 0), _Lazy(case, 1)
    for l, _ in pg:
        w, p = resolve(case, l)
        R[l] = w
        P[l] = p
    return dict(pg), R, P


def enumerated_webentities(case):
    """weid -> sorted prefixes, from the real prefix enumeration"""
    d = {}
    for p, w in prefix_entries(case):
        d.setdefault(w, []).append(p)
    for w in d:
        d[w].sort()
    return d


def all_page_links(case, page_lrus):
    """[(s,t,w)] every page-level link once (from the outbound+internal side of each page)"""
    out = []
    for p in page_lrus:
        out += page_links(case, p, include_inbound=False)
    return out


# ---------------------------------------------------------------------------------------------------------
# full observation of an index through its API, as one comparable value (used by the differential checks)

def _k(x):
    return repr(x)


def snapshot(t, lrus):
    """every observable answer of Traph `t` (a plain traph object, no Case), normalised where the API leaves the
    order unspecified.  Exceptions other than TraphException propagate to the caller."""
    snap = {}
    pg = [(bytes(l), bool(n.is_crawled())) for n, l in t.pages_iter()]
    snap["pages"] = sorted(pg)
    snap["count_pages"] = t.count_pages()
    snap["count_crawled_pages"] = t.count_crawled_pages()
    snap["count_links"] = float(t.count_links())
    snap["dfs"] = sorted(bytes(l) for n, l in t.lru_trie.dfs_iter())
    pre = [(bytes(l), n.webentity()) for n, l in t.webentity_prefix_iter()]
    snap["prefixes"] = sorted(pre)
    snap["links_out"] = sorted((bytes(a), bytes(b)) for a, b in t.links_iter(out=True))
    snap["links_in"] = sorted((bytes(a), bytes(b)) for a, b in t.links_iter(out=False))
    pl = {}
    for p, _ in pg:
        pl[p] = sorted((bytes(a), bytes(b), w) for a, b, w in t.get_page_links(p))
    snap["page_links"] = pl
    res = {}
    for q in sorted(set(lrus) | set(p for p, _ in pg)):
        try:
            w = t.retrieve_webentity(q)
        except TraphException:
            w = None
        try:
            p = t.retrieve_prefix(q)
        except TraphException:
            p = None
        pot = t.get_potential_prefix(q)
        res[q] = (w, bytes(p) if p else None, bytes(pot) if pot else None)
    snap["resolution"] = res
    wes = {}
    for p, w in pre:
        wes.setdefault(w, []).append(p)
    per = {}
    for w, ps in sorted(wes.items()):
        ps.sort()
        d = {}
        d["pages"] = sorted((bytes(g["lru"]), bool(g["crawled"])) for g in t.get_webentity_pages(w, ps))
        d["crawled_pages"] = sorted(bytes(g["lru"]) for g in t.get_webentity_crawled_pages(w, ps))
        d["pagelinks"] = sorted((bytes(a), bytes(b), c) for a, b, c in t.get_webentity_pagelinks(
            w, ps, include_inbound=True, include_internal=True, include_outbound=True))
        d["parents"] = sorted(t.get_webentity_parent_webentities(w, ps))
        d["children"] = sorted(t.get_webentity_child_webentities(w, ps))
        d["outlinks"] = sorted(t.get_webentity_outlinks(w, ps), key=_k)
        d["inlinks"] = sorted(t.get_webentity_inlinks(w, ps), key=_k)
        seq = []
        tok = None
        for _ in range(len(pg) + 2):
            r = t.paginate_webentity_pages(w, ps, page_count=2, pagination_token=tok)
            seq += [(bytes(g["lru"]), bool(g["crawled"])) for g in r["pages"]]
            if r["done"]:
                break
            tok = r["token"]
        d["paginated_pages"] = seq
        ml = t.get_webentity_most_linked_pages(w, ps, pages_count=1000)
        d["most_linked"] = sorted((g["indegree"], bytes(g["lru"])) for g in ml)
        per[w] = d
    snap["webentities"] = per
    net = {}
    for o in (True, False):
        for auto in (True, False):
            g = t.get_webentities_links(out=o, include_auto=auto)
            net[(o, auto)] = {a: dict(d) for a, d in g.items() if d}
            gs = t.get_webentities_links_slow(out=o, include_auto=auto)
            net[(o, auto, "slow")] = {a: dict(d) for a, d in gs.items() if d}
    snap["network"] = net
    if snap["dfs"]:
        m = t.metrics()
        snap["metrics"] = {"lru_trie": m["lru_trie"], "link_store": m["link_store"], "links": m["links"]}
    return snap


def diff_snapshots(a, b):
    """first difference between two snapshots as text, or None"""
    for k in a:
        if a[k] != b.get(k):
            va, vb = a[k], b.get(k)
            if isinstance(va, dict) and isinstance(vb, dict):
                for kk in sorted(set(va) | set(vb), key=_k):
                    if va.get(kk) != vb.get(kk):
                        return "%s[%r]: %r  vs  %r" % (k, kk, _cut(va.get(kk)), _cut(vb.get(kk)))
            return "%s: %r  vs  %r" % (k, _cut(va), _cut(vb))
    for k in b:
        if k not in a:
            return "%s only in the second" % k
    return None


def _cut(x, n=400):
    s = repr(x)
    return s if len(s) <= n else s[:n] + "..."
