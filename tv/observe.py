"""Observation layer: reads the real index through its public API only (plus the LRUTrie access paths that C02 names).
Every call goes through Case.call so that an exception inside the tree under test becomes a violation of the
property being checked and an exception in the harness stays a harness error."""
from collections import Counter

from .env import TraphException


def pages(case):
    """[(lru, crawled)] in enumeration order (duplicates preserved)"""
    return case.call("pages_iter", lambda: [(bytes(l), bool(n.is_crawled())) for n, l in case.t.pages_iter()])


def count_pages(case):
    return case.call("count_pages", case.t.count_pages)


def count_crawled(case):
    return case.call("count_crawled_pages", case.t.count_crawled_pages)


def count_links(case):
    return case.call("count_links", case.t.count_links)


def dfs_lrus(case):
    return case.call("dfs_iter", lambda: [bytes(l) for n, l in case.t.lru_trie.dfs_iter()])


def prefix_entries(case):
    """[(prefix, weid)] as enumerated"""
    return case.call("webentity_prefix_iter",
                     lambda: [(bytes(l), n.webentity()) for n, l in case.t.webentity_prefix_iter()])


def resolve(case, lru):
    """(weid, prefix) or (None, None); both resolution calls must agree on success/failure"""
    def f():
        try:
            w = case.t.retrieve_webentity(lru)
        except TraphException:
            w = None
        try:
            p = case.t.retrieve_prefix(lru)
        except TraphException:
            p = None
        return w, (bytes(p) if p else None)
    return case.call("retrieve_webentity/prefix", f)


def page_links(case, lru, **kw):
    return case.call("get_page_links", lambda: [(bytes(s), bytes(t), w) for s, t, w in case.t.get_page_links(lru, **kw)])


def links_iter(case, out):
    return case.call("links_iter", lambda: [(bytes(a), bytes(b)) for a, b in case.t.links_iter(out=out)])


def link_counter_from_pages(case, page_lrus):
    """Counter[(s,t)] rebuilt from the OUTBOUND+INTERNAL side of get_page_links of every page"""
    c = Counter()
    for p in page_lrus:
        for s, t, w in page_links(case, p, include_inbound=False):
            c[(s, t)] += w
    return c
