"""Scale probes: one index far larger than any generated history (hundreds of webentities so that ids pass 256, more than
1000 pages so that every traversal crosses the library's 1000/2000/5000-iteration yield thresholds), built once per check
and judged ONCE by the property's own oracle.  Deterministic (no drawing): the probe is a fixed input, like a regress replay."""
from .core import Case
from .ops import Config


def big_ops(n_sites=320, per_site=4):
    ops = []
    # site names in a scrambled (but fixed) order, so that the sibling BST of the hosts is bushy rather than one long chain
    sites = [b"s:http|h:com|h:s%03d|" % ((i * 7919 + 13) % n_sites) for i in range(n_sites)]
    names = [b"p:a|", b"p:b|", b"p:c|p:d|", b"p:e|"][:per_site]
    for i, s in enumerate(sites):
        # a varying number of extra pages per site, so that the block layout is not periodic (slot / modulo artefacts need
        # irregular distances between related nodes)
        extra = [s + b"p:x%d|" % j for j in range((i * 5 + 1) % 4)]
        ops.append(("pages", [s + n for n in names] + extra, i % 2 == 0))
        if extra:
            ops.append(("links", [(extra[0], s + names[0])]))
    for start in range(0, n_sites, 40):
        pairs = []
        for i in range(start, min(start + 40, n_sites)):
            s, nxt, far = sites[i], sites[(i + 1) % n_sites], sites[(i * 7 + 3) % n_sites]
            pairs += [(s + names[0], nxt + names[0]), (s + names[0], s + names[1]), (s + names[1], far + names[-1]),
                      (s + names[0], nxt + names[0]), (s + names[-1], s + names[-1])]
        ops.append(("links", pairs))
    # a few popular targets cited from everywhere (the same target is resolved again and again along the traversal)
    popular = [sites[k] + names[0] for k in range(min(6, n_sites))]
    for start in range(0, n_sites, 60):
        pairs = []
        for i in range(start, min(start + 60, n_sites)):
            pairs += [(sites[i] + names[-1], popular[(i + j) % len(popular)]) for j in range(3)]
        ops.append(("links", pairs))
    # a page outside every webentity, linked both ways, and a nested webentity
    ops.append(("links", [(b"x:nowhere|p:q|", sites[0] + names[0]), (sites[1] + names[0], b"x:nowhere|p:q|")]))
    ops.append(("create", [sites[2] + b"p:c|"]))
    return ops


def build(prop, ctx, n_sites=320, per_site=4, backend="memory"):
    """a Case holding the big index; the ledger has followed every request; no oracle has run yet"""
    case = Case(prop, ctx, Config(backend=backend, default_rule="domain"), None)
    case.minimize = False      # hundreds of requests on a big index: a violation is replayed by re-running the probe
    try:
        for op in big_ops(n_sites, per_site):
            out = case.idx.apply(op)
            if out.status != "ok":
                ctx.fail("exception", "scale probe: request %s failed: %r" % (op[0], out.exc), case)
            case.led.apply(op, out)
            case.ops.append(op)
    except BaseException:
        case.abort()
        raise
    return case
