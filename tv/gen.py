"""Drawing write ops (and configurations) with Hypothesis, from the case's vocabulary and the current ledger."""
from hypothesis import strategies as st

from .lru import lru_from, lru_list, maybe_text, url_lru, relative_of, lru_under
from .rules import DEFAULT_RULE_NAMES, ANCHORED_RULE_NAMES
from .ops import Config
from .spec import stems_of
from .codec import B

# default weights of op kinds; property profiles override some of them
BASE_WEIGHTS = {
    "page": 4, "pages": 2, "links": 3, "batch": 3, "create": 2, "delete": 1, "addprefix": 1, "rmprefix": 1,
    "move": 1, "rule": 1, "unrule": 1, "reopen": 1, "clear": 0, "again": 1, "recreate": 0,
}


def weighted_kinds(weights):
    out = []
    for k in sorted(weights):
        out += [k] * int(weights[k])
    return out


def _known(led, cap=40):
    ks = sorted(led.closure)
    if len(ks) > cap:
        # keep determinism; prefer pages and prefixes
        pri = sorted(set(led.pages) | set(led.prefix_map))
        ks = (pri + [k for k in ks if k not in set(pri)])[:cap]
    return ks


@st.composite
def config_strategy(draw, v, backends=("file",), with_rules=True, overwrite=(True,)):
    backend = draw(st.sampled_from(list(backends)))
    ow = draw(st.sampled_from(list(overwrite)))
    default = draw(st.sampled_from(DEFAULT_RULE_NAMES))
    # the index's text encoding (only matters for arguments passed as str): mostly the default, sometimes latin-1
    encoding = draw(st.sampled_from(["utf-8", "utf-8", "utf-8", "latin-1"]))
    from .codec import set_encoding
    set_encoding(encoding)
    rules = {}
    if with_rules and v.mode != "raw":
        n = draw(st.sampled_from([0, 0, 1, 1, 2, 3]))
        for _ in range(n):
            a = draw(anchor_strategy(v, []))
            if a in rules or (isinstance(a, bytes) and any(isinstance(k, str) and k.encode(encoding) == a for k in rules)):
                continue
            # rule anchors may be given as text too (one in four)
            rules[maybe_text(draw, a, one_in=4)] = draw(st.sampled_from(ANCHORED_RULE_NAMES))
    return Config(backend=backend, overwrite=ow, default_rule=default, rules=rules, encoding=encoding)


@st.composite
def anchor_strategy(draw, v, known):
    """rule anchors: short host-level prefixes (scheme, scheme + 1..3 hosts) so that they lie on the path of many pages;
    two times out of three a stem-prefix of a known LRU when there is one"""
    known = [k for k in known if k.startswith(b"s:")]
    if known and draw(st.integers(0, 2)) != 0:
        base = draw(st.sampled_from(known))
        sts = stems_of(base)
        k = draw(st.sampled_from([1, 2, 2, 3, 3, 4, len(sts)]))
        return b"".join(sts[:min(k, len(sts))])
    scheme = draw(st.sampled_from([b"s:http|", b"s:http|", b"s:https|"]))
    n = draw(st.sampled_from([0, 1, 1, 1, 2, 2, 3]))
    hosts = []
    if n:
        hosts.append(draw(st.sampled_from(v.hosts[:2])))
        for _ in range(n - 1):
            hosts.append(draw(st.sampled_from(v.hosts[2:])))
    while len(hosts) >= 2 and hosts[-1] == b"h:www|" and hosts[-2] == b"h:www|":
        hosts.pop()
    tail = b""
    if draw(st.integers(0, 5)) == 0:
        tail = draw(st.sampled_from(v.paths))
    return scheme + b"".join(hosts) + tail


@st.composite
def op_strategy(draw, v, led, weights, backend="file", history=()):
    kinds = weighted_kinds(weights)
    # preconditions instead of filters
    wes = led.webentities()
    ok = []
    for k in kinds:
        if k in ("delete", "rmprefix") and not wes:
            continue
        if k == "move" and not wes:
            continue
        if k == "addprefix" and not led.issued:
            continue
        if k == "unrule" and not led.rules:
            continue
        if k in ("reopen", "recreate") and backend != "file":
            continue
        if k in ("rule", "unrule") and v.mode == "raw":
            continue
        if k == "again" and not any(o[0] in ("page", "pages", "links", "batch") for o in history):
            continue
        ok.append(k)
    kind = draw(st.sampled_from(ok))
    # right after a prefix was detached (delete / remove / move), half of the time a page from beneath it comes back
    writes = [o for o in history[-4:] if o[0] != "probe"]
    if writes and writes[-1][0] in ("delete", "rmprefix", "move") and "again" in ok and draw(st.booleans()):
        last = writes[-1]
        gone = [B(x) for x in (last[2] if last[0] == "delete" else [last[1]])]
        under = sorted(p for p in led.pages if any(p.startswith(g) for g in gone))
        if under:
            p1 = draw(st.sampled_from(under))
            how = draw(st.sampled_from(["page", "pages", "link-source", "link-target", "batch-source", "batch-target"]))
            other = draw(st.sampled_from(sorted(led.pages)))
            return {"page": ("page", p1, draw(st.booleans())), "pages": ("pages", [p1], draw(st.booleans())),
                    "link-source": ("links", [(p1, other)]), "link-target": ("links", [(other, p1)]),
                    "batch-source": ("batch", [(p1, [])], 1), "batch-target": ("batch", [(other, [p1])], 1)}[how]
    known = _known(led)
    T = lambda l: maybe_text(draw, l)  # noqa: E731

    if kind == "again":
        prev = [o for o in history if o[0] in ("page", "pages", "links", "batch")]
        pgs_ = sorted(led.pages)
        if pgs_ and draw(st.booleans()):
            # a KNOWN page comes back through a drawn entry point (after webentity deletions / prefix removals this is what
            # makes the creation rules fire again on an existing page)
            p1 = draw(st.sampled_from(pgs_))
            p2 = draw(st.sampled_from(pgs_))
            how = draw(st.sampled_from(["page", "pages", "link-source", "link-target", "batch-source", "batch-target"]))
            if how == "page":
                return ("page", T(p1), draw(st.booleans()))
            if how == "pages":
                return ("pages", [T(p1)], draw(st.booleans()))
            if how == "link-source":
                return ("links", [(T(p1), T(p2))])
            if how == "link-target":
                return ("links", [(T(p2), T(p1))])
            if how == "batch-source":
                return ("batch", [(T(p1), [])], 1)
            return ("batch", [(T(p2), [T(p1)])], 1)
        # re-submission of an earlier page/link request, unchanged
        return draw(st.sampled_from(prev[-8:]))
    bases = sorted(set(led.rules) | set(p for p in led.prefix_map if p.startswith(b"s:")))
    if kind == "page":
        if bases and v.mode != "raw" and draw(st.integers(0, 2)) == 0:
            return ("page", T(draw(lru_under(v, draw(st.sampled_from(bases))))), draw(st.booleans()))
        return ("page", T(draw(lru_from(v, known))), draw(st.booleans()))
    if kind == "pages":
        ls = draw(lru_list(v, known, 0, 4))
        if bases and v.mode != "raw" and draw(st.integers(0, 2)) == 0:
            ls.append(draw(lru_under(v, draw(st.sampled_from(bases)))))
        return ("pages", [T(l) for l in ls], draw(st.sampled_from([True, True, True, False])))
    if kind in ("links", "batch"):
        pool = draw(lru_list(v, known, 1, 4))
        if bases and v.mode != "raw" and draw(st.integers(0, 2)) == 0:
            pool.append(draw(lru_under(v, draw(st.sampled_from(bases)))))
        pgs = sorted(led.pages)
        if pgs:
            extra = draw(st.lists(st.sampled_from(pgs), min_size=0, max_size=3))
            pool = pool + extra
            # a NEW relative (child / sibling) of a page already in the pool: inserting it rewrites that page's block
            for x in extra[:2]:
                if draw(st.booleans()):
                    pool.append(draw(relative_of(v, x)))
        if pgs and draw(st.integers(0, 3)) == 0:
            # template for the "stale cached node" class: page B is named first (so the request caches its node), then a NEW
            # relative of B is inserted (which rewrites B's block on disk), then B is used again as a source
            crawled = sorted(p for p, c in led.pages.items() if c)
            Bp = draw(st.sampled_from(crawled if crawled and draw(st.booleans()) else pgs))
            rel = draw(relative_of(v, Bp))
            A = draw(st.sampled_from(pool))
            others = [draw(st.sampled_from(pool)) for _ in range(draw(st.integers(0, 2)))]
            olds = [draw(st.sampled_from(pgs)) for _ in range(draw(st.integers(1, 2)))]
            if kind == "links":
                pairs = [(A, Bp)] + [(A, o) for o in others] + [(A, rel)] + [(Bp, o) for o in olds]
                return ("links", [(T(x), T(y)) for x, y in pairs])
            first = [Bp] + others + [rel]
            if draw(st.booleans()):
                first = [Bp, rel] + others
            tA, tB = T(A), T(Bp)
            if tA == tB:
                # a dict cannot hold the same key twice
                return ("batch", [(tB, [T(x) for x in first + olds])], draw(st.sampled_from([1, 1, 2, 50])))
            return ("batch", [(tA, [T(x) for x in first]), (tB, [T(x) for x in olds])], draw(st.sampled_from([1, 1, 2, 50])))
        if kind == "links":
            n = draw(st.integers(0, 6))
            pairs = []
            for _ in range(n):
                s = draw(st.sampled_from(pool))
                t = draw(st.sampled_from(pool))
                pairs.append((T(s), T(t)))
            return ("links", pairs)
        n = draw(st.integers(0, 3))
        data = []
        seen = set()
        named = []
        for _ in range(n):
            # a later source is, half of the time, a page that an earlier row named as target
            if named and draw(st.booleans()):
                s = T(draw(st.sampled_from(named)))
            else:
                s = T(draw(st.sampled_from(pool)))
            if s in seen:
                continue
            seen.add(s)
            ts = [T(draw(st.sampled_from(pool))) for _ in range(draw(st.integers(0, 4)))]
            named += [x for x in ts if isinstance(x, bytes)]
            data.append((s, ts))
        return ("batch", data, draw(st.sampled_from([1, 1, 2, 50])))
    if kind == "create":
        ls = draw(lru_list(v, known, 1, 3))
        uniq = []
        for l in ls:
            if l not in uniq:
                uniq.append(l)
        return ("create", [T(l) for l in uniq])
    if kind == "delete":
        w = draw(st.sampled_from(sorted(wes)))
        ps = list(wes[w])
        if len(ps) > 1 and draw(st.integers(0, 4)) == 0:
            ps = ps[:draw(st.integers(1, len(ps) - 1))]
        ps = list(draw(st.permutations(ps)))
        if draw(st.integers(0, 5)) == 0:
            # check_for_corruption=False: the id is documented as ignored (None, False, or a stale one)
            return ("delete", draw(st.sampled_from([None, False, w, w + 7])), ps, "unchecked")
        if draw(st.integers(0, 5)) == 0:
            # an inconsistent list: one prefix that is not attached to this webentity, NOT in first position; the request must be
            # refused as a whole (the library's own error) and change nothing
            foreign = [p for p, x in sorted(led.prefix_map.items()) if x != w]
            bad = draw(st.sampled_from(foreign)) if foreign and draw(st.booleans()) else draw(lru_from(v, known))
            if bad not in ps:
                ps.insert(draw(st.integers(1, len(ps))), bad)
        return ("delete", w, ps)
    if kind == "addprefix":
        w = draw(st.sampled_from(sorted(set(led.issued))))
        return ("addprefix", T(draw(lru_from(v, known))), w)
    if kind == "rmprefix":
        r = draw(st.integers(0, 9))
        w = draw(st.sampled_from(sorted(wes)))
        p = draw(st.sampled_from(wes[w]))
        if r == 0:
            return ("rmprefix", T(p), False)
        if r == 1:
            other = draw(st.sampled_from(sorted(set(led.issued))))
            return ("rmprefix", T(p), other)
        if r == 2:
            return ("rmprefix", T(draw(lru_from(v, known))), w)
        if r == 3:
            return ("rmprefix", T(draw(relative_of(v, p))), w)
        return ("rmprefix", T(p), w)
    if kind == "move":
        w = draw(st.sampled_from(sorted(wes)))
        p = draw(st.sampled_from(wes[w]))
        to = draw(st.sampled_from(sorted(set(led.issued))))
        r = draw(st.integers(0, 9))
        if r == 0:
            return ("move", T(p), to, False)
        if r in (2, 3):
            # the API also accepts a prefix that is attached to nothing when no source is named
            return ("move", T(draw(lru_from(v, known))), to, False)
        if r == 4:
            # ... and must refuse it when a source IS named (most interesting: the source owns an ancestor of the prefix)
            return ("move", T(draw(relative_of(v, p))), to, w)
        if r == 1:
            return ("move", T(p), to, draw(st.sampled_from(sorted(set(led.issued)))))
        return ("move", T(p), to, w)
    if kind == "rule":
        url_pages = sorted(p for p in led.pages if p.startswith(b"s:"))
        if url_pages and draw(st.integers(0, 3)) == 0:
            a = draw(st.sampled_from(url_pages))        # the anchor is itself an indexed page (often a leaf)
        else:
            a = draw(anchor_strategy(v, known))
        return ("rule", maybe_text(draw, a, one_in=4), draw(st.sampled_from(ANCHORED_RULE_NAMES)))
    if kind == "unrule":
        return ("unrule", draw(st.sampled_from(sorted(led.rules))))
    if kind == "reopen":
        return ("reopen",)
    if kind == "recreate":
        return ("recreate",)
    if kind == "clear":
        n = 0 if v.mode == "raw" else draw(st.sampled_from([0, 1, 2]))
        rules = []
        for _ in range(n):
            a = draw(anchor_strategy(v, known))
            if a not in [x for x, _ in rules]:
                rules.append((a, draw(st.sampled_from(ANCHORED_RULE_NAMES))))
        op = ("clear", draw(st.sampled_from(DEFAULT_RULE_NAMES)), rules)
        if draw(st.integers(0, 3)) == 0:
            op += (True,)        # the caller closed the index object first, then clears that same object
        return op
    raise AssertionError(kind)


def related_in_request(led_pages_before, closure_before, lrus):
    """does this request contain a NEW LRU that extends, or is a sibling of, another LRU of the same request?
    (the class of requests that exposes stale cached nodes)"""
    from .spec import parent_of
    ls = list(dict.fromkeys(lrus))
    for a in ls:
        if a in closure_before:
            continue
        pa = parent_of(a)
        for b in ls:
            if b == a:
                continue
            if a.startswith(b) or parent_of(b) == pa or b.startswith(pa) and pa:
                return True
    return False
