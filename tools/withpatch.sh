#!/bin/bash
# tools/withpatch.sh <patch.diff | -R:<commit> | none> <check args...>
# Runs ./check against a scratch git worktree of /repo HEAD with the patch applied; removes the worktree afterwards.
set -u
PATCH="$1"; shift
WT=$(mktemp -d /tmp/tvwt.XXXXXX)
git -C /repo worktree add -q --detach "$WT" HEAD || exit 2
cleanup() { git -C /repo worktree remove --force "$WT" 2>/dev/null; rm -rf "$WT"; }
trap cleanup EXIT
case "$PATCH" in
  none) ;;
  -R:*) git -C "$WT" revert --no-commit "${PATCH#-R:}" >/dev/null || exit 2 ;;
  *) git -C "$WT" apply "$PATCH" || { echo "patch does not apply"; exit 2; } ;;
esac
cd "$(dirname "$0")/.." && TV_REPO="$WT" ./check "$@" --no-evidence
