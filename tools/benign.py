#!/venv/bin/python
"""Behaviour-preserving changes written by independent sub-agents (refactorings that must NOT raise any alarm).

  tools/benign.py ingest <worktree>/benign_out <name> <n>     store patchN under benign/<name>-<n>/ after checking it applies and the suite passes
  tools/benign.py run [name ...] [--tier quick]                run every check against each stored change; any exit 1 is a false alarm to investigate
"""
import json
import os
import shutil
import subprocess
import sys
import tempfile

HERE = os.path.realpath(os.path.join(os.path.dirname(__file__), ".."))
DIR = os.path.join(HERE, "benign")
ALL = ["C%02d" % i for i in range(1, 21)]


def worktree():
    wt = tempfile.mkdtemp(prefix="tvbenign.", dir="/tmp")
    os.rmdir(wt)
    subprocess.check_call(["git", "-C", "/repo", "worktree", "add", "-q", "--detach", wt, "HEAD"])
    return wt


def drop(wt):
    subprocess.call(["git", "-C", "/repo", "worktree", "remove", "--force", wt])
    shutil.rmtree(wt, ignore_errors=True)


def sh(cmd, cwd=None, env=None):
    r = subprocess.run(cmd, cwd=cwd, env=env, capture_output=True, text=True)
    return r.returncode, r.stdout, r.stderr


def ingest(src, name, n):
    patch = os.path.join(src, "patch%s.diff" % n)
    wt = worktree()
    try:
        rc, _, err = sh(["git", "-C", wt, "apply", patch])
        if rc:
            print("REJECT %s-%s: does not apply: %s" % (name, n, err[-200:]))
            return False
        rct, out, _ = sh(["/venv/bin/python", "-m", "pytest", "-q", "-p", "no:cacheprovider"], cwd=wt)
        _, stat, _ = sh(["git", "-C", wt, "diff", "--stat"])
    finally:
        drop(wt)
    if rct:
        print("REJECT %s-%s: suite fails" % (name, n))
        return False
    d = os.path.join(DIR, "%s-%s" % (name, n))
    os.makedirs(d, exist_ok=True)
    shutil.copy(patch, os.path.join(d, "patch.diff"))
    if os.path.isfile(os.path.join(src, "notes.md")):
        shutil.copy(os.path.join(src, "notes.md"), os.path.join(d, "notes.md"))
    json.dump({"source": "independent sub-agent asked for behaviour-preserving refactorings", "files_touched": stat,
               "suite": out.strip().splitlines()[-1:]}, open(os.path.join(d, "meta.json"), "w"), indent=1)
    print("ACCEPT %s-%s" % (name, n))
    return True


def run(names, tier):
    for name in (names or sorted(os.listdir(DIR))):
        d = os.path.join(DIR, name)
        if not os.path.isfile(os.path.join(d, "patch.diff")):
            continue
        wt = worktree()
        res = {}
        try:
            rc, _, err = sh(["git", "-C", wt, "apply", os.path.join(d, "patch.diff")])
            if rc:
                print("%s: patch no longer applies" % name)
                continue
            for pid in ALL:
                env = dict(os.environ, TV_REPO=wt)
                rc, out, err = sh([os.path.join(HERE, "check"), pid, "--tier", tier, "--no-evidence"], env=env)
                clause = [l for l in out.splitlines() if l.startswith("clause:") or l.startswith("detail:")]
                res[pid] = {"rc": rc, "clause": " | ".join(clause)[:600]}
                if rc == 2:
                    res[pid]["stderr"] = err[-600:]
        finally:
            drop(wt)
        alarms = [p for p, r in res.items() if r["rc"] != 0]
        print("%-8s alarms: %s" % (name, ",".join(alarms) or "none"))
        for p in alarms:
            print("    %s rc=%d %s %s" % (p, res[p]["rc"], res[p]["clause"][:300], res[p].get("stderr", "")[-200:]))
        json.dump({tier: res}, open(os.path.join(d, "results.json"), "w"), indent=1, sort_keys=True)


if __name__ == "__main__":
    a = sys.argv[1:]
    if a and a[0] == "ingest":
        sys.exit(0 if ingest(a[1], a[2], a[3]) else 1)
    elif a and a[0] == "run":
        tier = "quick"
        names = [x for x in a[1:] if not x.startswith("--")]
        run(names, tier)
    else:
        print(__doc__)
