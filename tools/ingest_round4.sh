#!/bin/bash
# ingest the round-4 deliverables (each worker chose its own target property; see seed_out/target.txt)
cd "$(dirname "$0")/.."
for d in ${SEEDROOT:-/tmp/seed4}/*/seed_out; do
  [ -f "$d/target.txt" ] || continue
  for n in 1 2; do
    pid=$(sed -n "${n}p" "$d/target.txt" | grep -oE 'C[0-9]{2}' | head -1)
    [ -n "$pid" ] || { echo "no target for $d patch$n"; continue; }
    k=7; while [ -d "seeded/$pid-$k" ]; do k=$((k+1)); done
    tools/seed.py ingest "$d" "$pid" "$n" "$k" 2>&1 | tail -1 | sed "s/^/$(basename $(dirname $d)) -> $pid-$k: /"
  done
done
