#!/venv/bin/python
"""Regenerates MANIFEST.json from the property modules that exist under tv/props (one check per module).
Properties without a module are listed under not_applicable with the reason recorded in NOT_CLAIMED below."""
import importlib
import json
import os
import sys

HERE = os.path.realpath(os.path.join(os.path.dirname(__file__), ".."))
sys.path.insert(0, HERE)
os.environ.setdefault("TV_REPO", "/repo")
sys.path.insert(0, os.environ["TV_REPO"])

NOT_CLAIMED = {}

props = [json.loads(l) for l in open(os.path.join(HERE, "properties.jsonl")) if l.strip()]
checks = []
na = []
for p in props:
    pid = p["id"]
    path = os.path.join(HERE, "tv", "props", pid.lower() + ".py")
    if not os.path.isfile(path):
        na.append({"property_id": pid, "reason": NOT_CLAIMED.get(pid, "check not built yet (work in progress; see DESIGN.md section 4 for the plan)")})
        continue
    mod = importlib.import_module("tv.props." + pid.lower())
    P = mod.PROP
    checks.append({
        "property_id": pid,
        "quick_cmd": "./check %s --tier quick" % pid,
        "thorough_cmd": "./check %s --tier thorough" % pid,
        "evidence_file": "evidence/%s.json" % pid,
        "replay_cmd_template": "./check %s --replay {path}" % pid,
        "engine": "tv",
        "level_claimed": {"category": P.LEVEL, "text": P.LEVEL_TEXT + " What this check generates and compares: " + " ".join(P.RULE.split())[:900],
                          "design_ref": "DESIGN.md section 4, " + pid},
        "level_note": P.LEVEL_NOTE,
        "technique": P.TECHNIQUE,
    })

manifest = {
    "version": 1,
    "setup_cmd": "./setup.sh",
    "hooks": {
        "guard": "MEDIALAB_HYPHE_TRAPH_VERIF",
        "enable": "no source hooks: the harness patches TraphIteratorState.should_yield and FileStorage.write from its own process (tv/sched.py, tv/crash.py); checks import /repo's working tree directly",
        "baseline_off_cmd": "cd /repo && /venv/bin/python -m pytest -ra -q -p no:cacheprovider --timeout=900 --continue-on-collection-errors",
        "source_commits": [],
        "add_only": True,
    },
    "engines": [{
        "name": "tv",
        "path": "tv/",
        "serves_properties": [c["property_id"] for c in checks],
        "kind_free_text": "Hypothesis 6.168 rule-based state machines over generated request histories, a ledger/predictor oracle, raw-bytes fsck, harness-owned schedules and crash cuts, bounded exhaustive enumeration of finite sub-domains; 16 seeded shards; own ddmin reduction and replay files",
    }],
    "checks": checks,
    "notes": "Every check: ./check <ID> [--tier quick|thorough] [--replay FILE]; VERIF_SEED selects the seed (default 1). known_findings.json lists recorded/fixed defects.",
    "not_applicable": na,
}
with open(os.path.join(HERE, "MANIFEST.json"), "w") as f:
    json.dump(manifest, f, indent=1)
print("MANIFEST.json: %d checks, %d not claimed" % (len(checks), len(na)))
