#!/bin/bash
# tools/runall.sh <tier> [seed...]  : runs every registered check, prints one summary line per check
TIER="${1:-quick}"; shift
SEEDS="${@:-1}"
cd "$(dirname "$0")/.."
for s in $SEEDS; do
  for p in C01 C02 C03 C04 C05 C06 C07 C08 C09 C10 C11 C12 C13 C14 C15 C16 C17 C18 C19 C20; do
    out=$(VERIF_SEED=$s ./check $p --tier $TIER --no-evidence 2>&1); rc=$?
    echo "rc=$rc seed=$s $(echo "$out" | grep -E '^C[0-9]+ tier' | tail -1)"
    if [ $rc -ne 0 ]; then echo "$out" | grep -vE '^KNOWN' | head -12 | cut -c1-1500; fi
  done
done
