#!/venv/bin/python
"""Sensitivity mutants written by hand (see DESIGN.md, S lists).  Each is applied to a scratch git worktree of /repo HEAD,
the named checks are run against it with TV_REPO, and the worktree is removed.
usage: tools/mutants.py [name-substring ...] [--tier quick] [--all-checks]"""
import os
import subprocess
import sys
import tempfile

M = []


def mut(name, file, old, new, props, count=1):
    M.append((name, file, old, new, props, count))


T = "traph/traph.py"
LT = "traph/lru_trie/lru_trie.py"
ND = "traph/lru_trie/node.py"
HP = "traph/helpers.py"
LS = "traph/link_store/link_store.py"

mut("addlinks-no-source-refresh", T, "            # Refreshing node's data\n            source_node.refresh()\n            target_blocks = (pages",
    "            target_blocks = (pages", ["C01", "C02", "C03"])
mut("addlinks-no-target-refresh", T, "            # Refreshing node's data\n            target_node.refresh()\n            source_blocks = (pages[source_page].block for source_page in source_pages)\n            store.add_inlinks(target_node, source_blocks)\n\n        return report",
    "            source_blocks = (pages[source_page].block for source_page in source_pages)\n            store.add_inlinks(target_node, source_blocks)\n\n        return report", ["C01", "C03"])
mut("batch-no-target-refresh", T, "            target_node = pages[target_page]\n            target_node.refresh()\n            source_blocks = (pages[source_page].block for source_page in source_pages)\n            store.add_inlinks(target_node, source_blocks)\n\n            if state",
    "            target_node = pages[target_page]\n            source_blocks = (pages[source_page].block for source_page in source_pages)\n            store.add_inlinks(target_node, source_blocks)\n\n            if state", ["C01", "C03"])
mut("addprefixes-no-refresh", T, "                node.refresh()  # node update necessary\n", "", ["C01", "C02", "C04"])
mut("bst-ensure-head-only", LT, "            current_stem = node.stem()\n\n            if current_stem == stem:\n                return node\n\n            # Searching the BST\n            if stem < current_stem:",
    "            current_stem = node.stem()\n\n            if current_stem == stem:\n                return node\n\n            # Searching the BST\n            if stem[:74] < current_stem[:74]:", ["C02"])
mut("bst-lrunode-lte", LT, "                if current_stem == stem:\n                    break\n\n                if stem < current_stem:\n                    if node.has_left():\n                        node.read_left()\n                    else:\n                        return\n",
    "                if current_stem == stem:\n                    break\n\n                if stem[:74] <= current_stem[:74]:\n                    if node.has_left():\n                        node.read_left()\n                    else:\n                        return\n", ["C02"])
mut("chunk-73", ND, "for is_last, chunk in detailed_chunks_iter(LRU_TRIE_STEM_SIZE, self.tail)", "for is_last, chunk in detailed_chunks_iter(LRU_TRIE_STEM_SIZE - 1, self.tail)", ["C02", "C19"])
mut("sibling-no-parent", LT, "        sibling.set_parent(node.parent())\n", "", ["C02"])
mut("revert-F1", HP, "        yield True, string\n        return\n", "        yield True, string\n", ["C02", "C19"])
mut("crawled-flag-on-readd", LT, "        elif crawled and not node.is_crawled():", "        elif not node.is_crawled():", ["C01"])
mut("inlinks-wrong-weight", LS, "            weights[node.target()] += 1\n", "            weights[node.target()] = 1\n", ["C03"])

WH = "traph/lru_trie/walk_history.py"
mut("resolve-shallowest", WH, "    def update_webentity(self, weid, prefix, position):\n        self.webentity = weid",
    "    def update_webentity(self, weid, prefix, position):\n        if self.webentity:\n            return\n        self.webentity = weid", ["C04", "C05"])
mut("addprefix-no-refusal", T, "        if node.has_webentity():\n            raise TraphException(\n                \"Prefix %s already attributed to webentity %s\"\n                % (prefix, node.webentity())\n            )\n        else:\n            node.set_webentity(weid)\n            node.write()\n            return True",
    "        node.set_webentity(weid)\n        node.write()\n        return True", ["C04"])
mut("id-header-not-persisted", T, "        header.increment_last_webentity_id()\n        header.write()\n", "        header.increment_last_webentity_id()\n", ["C12", "C11"])
mut("id-reuse-after-delete", T, "        for prefix, node in prefix_index.items():\n            node.unset_webentity()\n            node.write()\n\n        return True",
    "        for prefix, node in prefix_index.items():\n            node.unset_webentity()\n            node.write()\n\n        header = self.lru_trie.header\n        if weid == header.last_webentity_id():\n            header.set_last_webentity_id(weid - 1)\n            header.write()\n\n        return True", ["C12"])
mut("addprefix-no-ancestor-flag", T, "        node, history = self.lru_trie.add_lru(\n            prefix, flag_can_have_child_webentities=True\n        )\n        if node.has_webentity():\n            raise TraphException(",
    "        node, history = self.lru_trie.add_lru(prefix)\n        if node.has_webentity():\n            raise TraphException(", ["C13"])
mut("flag-only-new-nodes", LT, "            # Flagging for underlying webentities\n            if (\n                i < l - 1\n                and flag_can_have_child_webentities\n                and not node.can_have_child_webentities()\n            ):\n                node.flag_can_have_child_webentities()\n                node.write()\n",
    "", ["C13"])
mut("ladder-lt", T, "        if len(longest_candidate_prefix) <= history.webentity_position:\n            node.refresh()  # update node\n            return node, report",
    "        if len(longest_candidate_prefix) < history.webentity_position:\n            node.refresh()  # update node\n            return node, report", ["C06"])
mut("default-rule-despite-E", T, "        # In this case, the webentity already exists\n        if len(longest_candidate_prefix) <= history.webentity_position:",
    "        # In this case, the webentity already exists\n        if longest_candidate_prefix and len(longest_candidate_prefix) <= history.webentity_position:", ["C06"])
mut("no-variations", T, "        if longest_candidate_prefix:\n            report += self.__create_webentity(longest_candidate_prefix, expand=True)\n            node.refresh()  # update node\n            return node, report",
    "        if longest_candidate_prefix:\n            report += self.__create_webentity(longest_candidate_prefix, expand=False)\n            node.refresh()  # update node\n            return node, report", ["C06", "C17"])
mut("deepest-anchor-only", T, "                longest_candidate_prefix = candidate_prefix\n\n        # In this case, the webentity already exists",
    "                longest_candidate_prefix = candidate_prefix\n            break\n\n        # In this case, the webentity already exists", ["C06"])
mut("rule-install-forgets-report", T, "                    _, add_report = self.__add_page(lru)\n                    report += add_report", "                    _, add_report = self.__add_page(lru)", ["C06", "C12"])
mut("potential-ignores-default", T, "        # If there is neither a webentity prefix nor a rules prefix, look for the default rule\n        longest_candidate_prefix = self.__apply_webentity_default_creation_rule(lru)",
    "        # If there is neither a webentity prefix nor a rules prefix, look for the default rule\n        longest_candidate_prefix = None", ["C06"])
mut("open-truncates", T, '            flags = "wb+" if create else "rb+"', '            flags = "wb+" if create else "wb+"', ["C11"])
# (equivalent mutant, kept for the record: RAM patterns of anchors that are no longer flagged are never consulted)
False and mut("clear-keeps-rules-ram", T, "        if webentity_creation_rules is not None:\n            self.webentity_creation_rules = {}\n\n            for prefix, pattern in webentity_creation_rules.items():\n                self.add_webentity_creation_rule(prefix, pattern, True)",
    "        if webentity_creation_rules is not None:\n            for prefix, pattern in webentity_creation_rules.items():\n                self.add_webentity_creation_rule(prefix, pattern, True)", ["C11", "C06"])
mut("clear-keeps-header-id", T, "        # LRU Trie re-initialization\n        self.lru_trie = LRUTrie(self.lru_trie_storage, encoding=self.encoding)\n\n        # Link Store re-initialization",
    "        # LRU Trie re-initialization\n        last = self.lru_trie.header.last_webentity_id()\n        self.lru_trie = LRUTrie(self.lru_trie_storage, encoding=self.encoding)\n        self.lru_trie.header.set_last_webentity_id(last)\n\n        # Link Store re-initialization", ["C11"])
FS = "traph/storage/file.py"
mut("revert-F5", ND, "                    if raw is None:\n                        break\n", "", ["C18"])
mut("corruption-check-off", FS, "        if file_length % self.block_size:\n            return True", "        if file_length % self.block_size:\n            return False", ["C18"])
mut("missing-store-tolerated", T, "            if lru_trie_file_exists and not link_store_file_exists:\n                raise TraphException(", "            if False:\n                raise TraphException(", ["C18"])
mut("resume-gte", LT, "                if pagination_path is None or current_lru > pagination_lru:", "                if pagination_path is None or current_lru >= pagination_lru:", ["C09", "C10"])
mut("prune-gt", LT, "            return current_path >= p\n", "            return current_path > p\n", ["C09", "C10"])
mut("lookahead-off-by-one", T, "        k = page_count + 1 if page_count is not None else None", "        k = page_count + 2 if page_count is not None else None", ["C09"])
mut("no-path-reset", T, "                last_path = path\n                last_path_i = i\n\n            # We reset the pagination path for next prefix\n            pagination_path = None\n\n        return {\"done\": True, \"count\": n",
    "                last_path = path\n                last_path_i = i\n\n        return {\"done\": True, \"count\": n", ["C09"])
mut("count-crawled-wrong", T, "                if crawled:\n                    c += 1\n\n                pages.append", "                c += 1\n\n                pages.append", ["C09"])
mut("revert-F4", T, "                if not node.has_outlinks():\n                    last_path = path\n                    last_path_i = i\n                    continue",
    "                if not node.has_outlinks():\n                    last_path = path\n                    continue", ["C10"])
mut("pagelinks-count-pages-not-linkbearing", T, "                if newlinks:\n                    n += 1\n\n                    if source_page_count", "                if True:\n                    n += 1\n\n                    if source_page_count", ["C10"])
mut("batch-no-source-refresh-before-outlinks", T, "            source_node.refresh()\n            store.add_outlinks(source_node, target_blocks)", "            store.add_outlinks(source_node, target_blocks)", ["C16", "C01", "C03"])
mut("batch-no-refresh-before-crawled-flag", T, "                if not source_node.is_crawled():\n                    source_node.refresh()\n                    source_node.flag_as_crawled()", "                if not source_node.is_crawled():\n                    source_node.flag_as_crawled()", ["C16", "C01"])
mut("rule-iter-stale-dfs", T, "                if node2.is_page():\n                    _, add_report = self.__add_page(lru)\n                    report += add_report",
    "                if node2.is_page():\n                    _, add_report = self.__add_page(lru)\n                    report += add_report\n                    node2.write()", ["C16", "C06"])

def main():
    args = [a for a in sys.argv[1:] if not a.startswith("--")]
    tier = "quick"
    here = os.path.realpath(os.path.join(os.path.dirname(__file__), ".."))
    rows = []
    for name, file, old, new, props, count in M:
        if args and not any(a in name for a in args):
            continue
        wt = tempfile.mkdtemp(prefix="tvmut.", dir="/tmp")
        os.rmdir(wt)
        subprocess.check_call(["git", "-C", "/repo", "worktree", "add", "-q", "--detach", wt, "HEAD"])
        try:
            p = os.path.join(wt, file)
            s = open(p).read()
            if s.count(old) != count:
                print("MUTANT %s: pattern occurs %d times, expected %d" % (name, s.count(old), count))
                continue
            open(p, "w").write(s.replace(old, new))
            # the mutant must keep the pinned suite green, otherwise it is not a realistic change
            r = subprocess.run(["/venv/bin/python", "-m", "pytest", "-q", "-x", "-p", "no:cacheprovider"], cwd=wt,
                               capture_output=True, text=True)
            suite = "suite-green" if r.returncode == 0 else "SUITE-RED"
            for pid in props:
                env = dict(os.environ, TV_REPO=wt)
                r = subprocess.run([os.path.join(here, "check"), pid, "--tier", tier, "--no-evidence"], env=env,
                                   capture_output=True, text=True)
                clause = [l for l in r.stdout.splitlines() if l.startswith("clause:")]
                verdict = {0: "MISSED", 1: "caught", 2: "HARNESS-ERROR"}.get(r.returncode, "rc=%d" % r.returncode)
                rows.append((name, pid, verdict, suite, clause[0] if clause else ""))
                print("%-32s %-4s %-8s %-11s %s" % rows[-1])
                if r.returncode == 2:
                    print(r.stderr[-1500:])
        finally:
            subprocess.call(["git", "-C", "/repo", "worktree", "remove", "--force", wt])
    return 0


if __name__ == "__main__":
    sys.exit(main())
