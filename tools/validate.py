#!/usr/bin/env python3-vt
"""Validates MANIFEST.json and every evidence file against the schemas (uses the tooling venv's jsonschema)."""
import glob
import json
import sys
import jsonschema

ok = True
try:
    jsonschema.validate(json.load(open('/verif/MANIFEST.json')), json.load(open('/root/.vp/MANIFEST.schema.json')))
    print("MANIFEST.json valid")
except Exception as e:
    ok = False
    print("MANIFEST.json INVALID", e)
S = json.load(open('/root/.vp/EVIDENCE.schema.json'))
for f in sorted(glob.glob('/verif/evidence/*.json')):
    try:
        jsonschema.validate(json.load(open(f)), S)
    except Exception as e:
        ok = False
        print(f, "INVALID", str(e)[:300])
print("evidence files checked:", len(glob.glob('/verif/evidence/*.json')))
sys.exit(0 if ok else 1)
