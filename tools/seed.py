#!/venv/bin/python
"""Seeded breaking changes written by independent sub-agents (they saw only the property text).

  tools/seed.py ingest <worktree>/seed_out <ID> <n>   verify patchN/demoN in a scratch worktree and store them under seeded/
  tools/seed.py run [name ...] [--props C01,C02] [--tier quick]   run checks against each stored change, write results.json
  tools/seed.py matrix                                 print which checks catch which change

Every run happens in a scratch git worktree of /repo HEAD under /tmp that is removed afterwards; /repo is never modified.
"""
import json
import os
import shutil
import subprocess
import sys
import tempfile

HERE = os.path.realpath(os.path.join(os.path.dirname(__file__), ".."))
SEEDED = os.path.join(HERE, "seeded")
ALL = ["C%02d" % i for i in range(1, 21)]


def worktree():
    wt = tempfile.mkdtemp(prefix="tvseed.", dir="/tmp")
    os.rmdir(wt)
    subprocess.check_call(["git", "-C", "/repo", "worktree", "add", "-q", "--detach", wt, "HEAD"])
    return wt


def drop(wt):
    subprocess.call(["git", "-C", "/repo", "worktree", "remove", "--force", wt])
    shutil.rmtree(wt, ignore_errors=True)


def sh(cmd, cwd=None, env=None, timeout=1800):
    r = subprocess.run(cmd, cwd=cwd, env=env, capture_output=True, text=True, timeout=timeout)
    return r.returncode, r.stdout, r.stderr


def ingest(src, pid, n, dest=None):
    dest = dest or n
    patch = os.path.join(src, "patch%s.diff" % n)
    demo = os.path.join(src, "demo%s.py" % n)
    notes = os.path.join(src, "notes.md")
    assert os.path.isfile(patch) and os.path.isfile(demo), (patch, demo)
    ran = []
    wt = worktree()
    try:
        rc0, out0, err0 = sh(["/venv/bin/python", demo, wt], cwd=wt)
        ran.append({"cmd": "demo on clean tree", "rc": rc0})
        rc, out, err = sh(["git", "-C", wt, "apply", patch])
        ran.append({"cmd": "git apply", "rc": rc, "err": err[-300:]})
        if rc != 0:
            print("REJECT %s-%s: patch does not apply: %s" % (pid, n, err))
            return False
        rc, out, err = sh(["git", "-C", wt, "diff", "--stat"])
        touched = out
        rc_t, out_t, err_t = sh(["/venv/bin/python", "-m", "pytest", "-q", "-p", "no:cacheprovider"], cwd=wt)
        ran.append({"cmd": "pytest with patch", "rc": rc_t, "tail": out_t.strip().splitlines()[-1:]})
        rc1, out1, err1 = sh(["/venv/bin/python", demo, wt], cwd=wt)
        ran.append({"cmd": "demo on patched tree", "rc": rc1, "tail": (out1 + err1)[-600:]})
    finally:
        drop(wt)
    ok = rc0 == 0 and rc_t == 0 and rc1 == 1
    print("%s %s-%s: demo clean rc=%d, tests rc=%d (%s), demo patched rc=%d" % (
        "ACCEPT" if ok else "REJECT", pid, n, rc0, rc_t, out_t.strip().splitlines()[-1:] , rc1))
    if not ok:
        return False
    d = os.path.join(SEEDED, "%s-%s" % (pid, dest))
    os.makedirs(d, exist_ok=True)
    shutil.copy(patch, os.path.join(d, "patch.diff"))
    shutil.copy(demo, os.path.join(d, "demo.py"))
    note_text = open(notes).read() if os.path.isfile(notes) else ""
    with open(os.path.join(d, "notes.md"), "w") as f:
        f.write(note_text)
    meta = {"property": pid, "source": "independent sub-agent given only the property text and a scratch worktree",
            "files_touched": touched, "needs_to_manifest": "see notes.md (section for change %s)" % n,
            "verified_by_me": ran,
            "round": 1 if str(dest) in ("1", "2") else 2,
            "how_to_run": "tools/seed.py run %s-%s   (applies patch.diff to a scratch worktree of /repo HEAD, runs the checks with TV_REPO)" % (pid, dest)}
    with open(os.path.join(d, "meta.json"), "w") as f:
        json.dump(meta, f, indent=1)
    return True


def verify(names):
    """re-verify stored changes against the CURRENT /repo HEAD (fix commits may have landed since they were written)"""
    for name in (names or sorted(os.listdir(SEEDED))):
        d = os.path.join(SEEDED, name)
        patch, demo = os.path.join(d, "patch.diff"), os.path.join(d, "demo.py")
        if not os.path.isfile(patch):
            continue
        wt = worktree()
        try:
            rc0, _, _ = sh(["/venv/bin/python", demo, wt], cwd=wt)
            rca, _, err = sh(["git", "-C", wt, "apply", patch])
            rct, rc1 = -1, -1
            if rca == 0:
                rct, _, _ = sh(["/venv/bin/python", "-m", "pytest", "-q", "-p", "no:cacheprovider"], cwd=wt)
                rc1, _, _ = sh(["/venv/bin/python", demo, wt], cwd=wt)
        finally:
            drop(wt)
        ok = rc0 == 0 and rca == 0 and rct == 0 and rc1 == 1
        head = subprocess.check_output(["git", "-C", "/repo", "log", "--format=%h", "-1"]).decode().strip()
        print("%s %s: demo clean rc=%d, apply rc=%d, tests rc=%d, demo patched rc=%d (repo %s)" % (
            "OK     " if ok else "INVALID", name, rc0, rca, rct, rc1, head))
        mp = os.path.join(d, "meta.json")
        meta = json.load(open(mp))
        meta["reverified"] = {"repo_head": head, "valid": ok, "demo_clean_rc": rc0, "apply_rc": rca, "tests_rc": rct, "demo_patched_rc": rc1}
        with open(mp, "w") as f:
            json.dump(meta, f, indent=1)


def run(names, props, tier):
    if not names:
        names = sorted(os.listdir(SEEDED))
    for name in names:
        d = os.path.join(SEEDED, name)
        if not os.path.isfile(os.path.join(d, "patch.diff")):
            continue
        meta = json.load(open(os.path.join(d, "meta.json")))
        wt = worktree()
        res = {}
        try:
            rc, out, err = sh(["git", "-C", wt, "apply", os.path.join(d, "patch.diff")])
            if rc != 0:
                print("%s: patch no longer applies" % name)
                continue
            todo = props or ALL
            for pid in todo:
                env = dict(os.environ, TV_REPO=wt)
                rc, out, err = sh([os.path.join(HERE, "check"), pid, "--tier", tier, "--no-evidence"], env=env)
                clause = [l for l in out.splitlines() if l.startswith("clause:")]
                res[pid] = {"rc": rc, "verdict": {0: "quiet", 1: "VIOLATION", 2: "harness-error"}.get(rc, str(rc)),
                            "clause": clause[0][8:] if clause else ""}
                if rc == 2:
                    res[pid]["stderr"] = err[-800:]
        finally:
            drop(wt)
        target = meta["property"]
        caught_by = [p for p, r in res.items() if r["rc"] == 1]
        print("%-8s target %s: %s   caught by: %s" % (name, target, res.get(target, {}).get("verdict"), ",".join(caught_by)))
        for p, r in res.items():
            if r["rc"] == 2:
                print("   HARNESS ERROR in %s: %s" % (p, r.get("stderr", "")[-400:]))
        old = {}
        rp = os.path.join(d, "results.json")
        if os.path.isfile(rp):
            old = json.load(open(rp))
        old.setdefault(tier, {}).update(res)
        with open(rp, "w") as f:
            json.dump(old, f, indent=1, sort_keys=True)


def matrix():
    rows = []
    for name in sorted(os.listdir(SEEDED)):
        rp = os.path.join(SEEDED, name, "results.json")
        if not os.path.isfile(rp):
            continue
        res = json.load(open(rp))
        meta = json.load(open(os.path.join(SEEDED, name, "meta.json")))
        q = res.get("quick", {})
        t = res.get("thorough", {})
        target = meta["property"]
        caught_q = sorted(p for p, r in q.items() if r["rc"] == 1)
        caught_t = sorted(p for p, r in t.items() if r["rc"] == 1)
        rows.append((name, target, q.get(target, {}).get("verdict", "-"), q.get(target, {}).get("clause", ""), caught_q, caught_t))
    for r in rows:
        print("| %s | %s | %s | %s | %s | %s |" % (r[0], r[1], r[2], r[3], " ".join(r[4]), " ".join(r[5])))


if __name__ == "__main__":
    a = sys.argv[1:]
    if a and a[0] == "ingest":
        sys.exit(0 if ingest(a[1], a[2], a[3], a[4] if len(a) > 4 else None) else 1)
    elif a and a[0] == "run":
        props, tier, names = None, "quick", []
        i = 1
        while i < len(a):
            if a[i] == "--props":
                props = a[i + 1].split(",")
                i += 2
            elif a[i] == "--tier":
                tier = a[i + 1]
                i += 2
            else:
                names.append(a[i])
                i += 1
        run(names, props, tier)
    elif a and a[0] == "verify":
        verify(a[1:])
    elif a and a[0] == "matrix":
        matrix()
    else:
        print(__doc__)
