#!/bin/bash
# run each seeded change against the check of its own property only (fast first answer)
cd "$(dirname "$0")/.."
for d in seeded/*/; do
  n=$(basename $d); p=${n%-*}
  tools/seed.py run $n --props $p --tier "${1:-quick}" 2>&1 | tail -1
done
