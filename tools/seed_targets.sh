#!/bin/bash
# run each seeded change against the check of its own property only (fast first answer)
# usage: tools/seed_targets.sh [tier] [name-glob]
cd "$(dirname "$0")/.."
for d in seeded/${2:-*}/; do
  n=$(basename $d); p=${n%-*}
  tools/seed.py run $n --props $p --tier "${1:-quick}" 2>&1 | grep -E "^C[0-9]+-|HARNESS" | cut -c1-300
done
