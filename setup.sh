#!/bin/bash
# Offline setup: the framework is pure Python and needs only Hypothesis beside the repository's own interpreter.
HERE="$(cd "$(dirname "${BASH_SOURCE[0]}")" && pwd)"
PY=/venv/bin/python
[ -x "$PY" ] || PY=python3
export PIP_NO_INDEX=1
if ! PYTHONPATH="$HERE/.deps" "$PY" -c "import hypothesis" 2>/dev/null; then
  mkdir -p "$HERE/.deps"
  "$PY" -m pip install --no-index --find-links /opt/veriftools/wheels --target "$HERE/.deps" hypothesis || exit 1
fi
PYTHONPATH="/repo:$HERE:$HERE/.deps" "$PY" -c "import hypothesis, tv.env; print('setup ok: hypothesis', hypothesis.__version__)" || exit 1
mkdir -p "$HERE/evidence" "$HERE/replays"
