#!/bin/bash
# Offline setup: the framework is pure Python and needs only Hypothesis beside the repository's own interpreter.
HERE="$(cd "$(dirname "${BASH_SOURCE[0]}")" && pwd)"
PY=/venv/bin/python
[ -x "$PY" ] || PY=python3
export PIP_NO_INDEX=1
if ! PYTHONPATH="$HERE/.deps" "$PY" -c "import hypothesis" 2>/dev/null; then
  mkdir -p "$HERE/.deps"
  "$PY" -m pip install --no-index --find-links /opt/veriftools/wheels --target "$HERE/.deps" hypothesis || exit 1
fi
# optional: atheris for the coverage-guided fuzz phase of the thorough tier (skipped, and said so in the evidence, if absent)
if ! PYTHONPATH="$HERE/.deps" "$PY" -c "import atheris" 2>/dev/null; then
  mkdir -p "$HERE/.deps"
  "$PY" -m pip install -q --no-index --find-links /opt/veriftools/wheels --target "$HERE/.deps" atheris 2>/dev/null || echo "setup: atheris not installed (fuzz phase will be skipped)"
fi
PYTHONPATH="/repo:$HERE:$HERE/.deps" "$PY" -c "import hypothesis, tv.env; print('setup ok: hypothesis', hypothesis.__version__)" || exit 1
mkdir -p "$HERE/evidence" "$HERE/replays"
